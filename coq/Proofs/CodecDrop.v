(* Proofs/CodecDrop.v -- round trips of droplets, emulsions, tracks; exactness of int -> double. *)
From Coq Require Import ZArith List Bool String Ascii Lia ZifyBool.
From PD Require Import Model.Codec Proofs.Codec.
Import ListNotations.
Local Open Scope Z_scope.

(* ------------------------------------------------------------------------------------------ *)
(* consistency of the format facts (a boolean, evaluated on the generated values)             *)
(* ------------------------------------------------------------------------------------------ *)
Definition drop_fields : list string := ["position"; "radius"; "interface_width"; "amplitudes"]%string.

Definition fmt_ok (fm : fmt) : bool :=
  String.eqb (em_attr_w fm) (em_attr_r fm) && String.eqb (em_none_w fm) (em_none_r fm)
  && forallb (fun c => negb (String.eqb (class_name c) (em_none_r fm))) all_classes
  && String.eqb (tr_attr_w fm) (tr_attr_r fm) && String.eqb (tr_none_w fm) (tr_none_r fm)
  && forallb (fun c => negb (String.eqb (class_name c) (tr_none_r fm))) all_classes
  && String.eqb (tr_time_w fm) (tr_time_r fm) && String.eqb (tr_time_w fm) (tr_time_drop fm)
  && forallb (fun s => negb (String.eqb s (tr_time_w fm))) drop_fields
  && String.eqb (etc_time_w fm) (etc_time_r fm) && negb (String.eqb (em_attr_w fm) (etc_time_w fm))
  && (0 <=? etc_width fm) && (0 <=? tl_width fm) && is_some (tr_layout_guard fm).

Record fmt_facts (fm : fmt) : Prop := {
  ff_em_attr : em_attr_w fm = em_attr_r fm;
  ff_em_none : em_none_w fm = em_none_r fm;
  ff_em_none_cls : forall c, String.eqb (class_name c) (em_none_r fm) = false;
  ff_tr_attr : tr_attr_w fm = tr_attr_r fm;
  ff_tr_none : tr_none_w fm = tr_none_r fm;
  ff_tr_none_cls : forall c, String.eqb (class_name c) (tr_none_r fm) = false;
  ff_tr_time_r : tr_time_w fm = tr_time_r fm;
  ff_tr_time_drop : tr_time_w fm = tr_time_drop fm;
  ff_tr_time_fields : forall s, In s drop_fields -> String.eqb s (tr_time_w fm) = false;
  ff_etc_time : etc_time_w fm = etc_time_r fm;
  ff_etc_attr : String.eqb (em_attr_w fm) (etc_time_w fm) = false;
  ff_etc_w : 0 <= etc_width fm;
  ff_tl_w : 0 <= tl_width fm;
  ff_guard : exists e, tr_layout_guard fm = Some e
}.

Lemma fmt_ok_facts fm : fmt_ok fm = true -> fmt_facts fm.
Proof.
  unfold fmt_ok. intros H. rewrite !andb_true_iff in H.
  destruct H as [[[[[[[[[[[[[H1 H2] H3] H4] H5] H6] H7] H8] H9] H10] H11] H12] H13] H14].
  apply String.eqb_eq in H1, H2, H4, H5, H7, H8, H10. apply negb_true_iff in H11.
  rewrite forallb_forall in H3, H6, H9.
  constructor; try assumption; try lia.
  - intros c. apply negb_true_iff. apply H3. destruct c; simpl; tauto.
  - intros c. apply negb_true_iff. apply H6. destruct c; simpl; tauto.
  - intros s Hs. apply negb_true_iff. apply H9. exact Hs.
  - destruct (tr_layout_guard fm) as [e|]; [exists e; reflexivity | discriminate].
Qed.

(* ------------------------------------------------------------------------------------------ *)
(* one droplet                                                                                *)
(* ------------------------------------------------------------------------------------------ *)
Lemma class_of_name_name c : class_of_name (class_name c) = Some c.
Proof. destruct c; reflexivity. Qed.

Lemma class_eqb_eq a b : class_eqb a b = true -> a = b.
Proof. destruct a, b; simpl; intros H; try discriminate; reflexivity. Qed.

Lemma class_eqb_refl a : class_eqb a a = true.
Proof. destruct a; reflexivity. Qed.

Lemma valid_drop_parts d : valid_drop d = true ->
  wf_drop d = true /\ check_data (cls d) (dpos d) (radius d) = true /\ width_ok (width d) = true
  /\ dim_ok (cls d) (dpos d) = true.
Proof. unfold valid_drop. intros H. rewrite !andb_true_iff in H. tauto. Qed.

Lemma construct_enc_drop d : valid_drop d = true -> construct (class_name (cls d)) (enc_drop d) = Ok d.
Proof.
  intros Hv. apply valid_drop_parts in Hv as (Hwf & Hck & Hw & Hdim).
  destruct d as [c p r w a]. cbn [cls dpos radius width ampl] in *.
  unfold construct. rewrite class_of_name_name.
  unfold wf_drop in Hwf. cbn [cls width ampl] in Hwf.
  apply andb_prop in Hwf as [Hw1 Ha1]. apply eqb_prop in Hw1.
  destruct c; cbn [has_width has_ampl] in *;
    destruct w as [w|]; cbn [is_some] in Hw1; try discriminate;
    try (destruct a as [|a0 a]; cbn [is_nil orb] in Ha1; try discriminate);
    unfold enc_drop; cbn [cls dpos radius width ampl has_ampl has_width app ctor_params forallb existsb fst
                         String.eqb Ascii.eqb Bool.eqb andb orb negb lookup];
    rewrite Hck, Hw, Hdim; reflexivity.
Qed.

(* ------------------------------------------------------------------------------------------ *)
(* emulsions                                                                                  *)
(* ------------------------------------------------------------------------------------------ *)
Lemma sel_member_cls (s : member_sel) d0 (l : list drop) c :
  cls d0 = c -> Forall (fun d => cls d = c) l -> cls (sel_member s d0 l) = c.
Proof.
  intros H0 Hl. destruct s; simpl; [exact H0|].
  revert d0 H0. induction Hl as [|x t Hx Ht IH]; intros d0 H0; simpl; [exact H0|].
  destruct t; [exact Hx|]. apply IH. exact H0.
Qed.

Lemma forallb_class l c :
  forallb (fun d => class_eqb (cls d) c) l = true -> Forall (fun d => cls d = c) l.
Proof.
  intros H. apply Forall_forall. intros d Hd. rewrite forallb_forall in H.
  apply class_eqb_eq. apply H. exact Hd.
Qed.

Lemma dec_enc_emulsion fm l ds :
  fmt_ok fm = true -> valid_emulsion l = true ->
  enc_emulsion fm l = Ok ds -> dec_emulsion fm ds = Ok l.
Proof.
  intros Hfm Hv Henc. apply fmt_ok_facts in Hfm. destruct Hfm.
  unfold enc_emulsion in Henc. destruct l as [|d0 t].
  - injection Henc as <-. unfold dec_emulsion, none_dataset. cbn [ds_attrs ds_body].
    rewrite ff_em_attr0, lookup_head, ff_em_none0, String.eqb_refl. reflexivity.
  - destruct (forallb (fun d => class_eqb (cls d) (cls d0)) (d0 :: t)) eqn:Hc; [|discriminate].
    cbn [negb] in Henc.
    destruct (forallb (fun d => layout_eqb (layout d) (layout d0)) (d0 :: t)) eqn:Hl; [|discriminate].
    cbn [negb] in Henc. destruct (zero_sized d0); [discriminate|].
    injection Henc as <-. unfold dec_emulsion. cbn [ds_attrs ds_body].
    rewrite ff_em_attr0, lookup_head.
    apply forallb_class in Hc.
    rewrite (sel_member_cls (em_sel fm) d0 (d0 :: t) (cls d0) eq_refl Hc).
    rewrite ff_em_none_cls0. change (enc_drop d0 :: map enc_drop t) with (map enc_drop (d0 :: t)).
    rewrite mapM_map.
    rewrite (mapM_all_ok _ (fun d => d)); [rewrite map_id; reflexivity|].
    intros d Hd. rewrite Forall_forall in Hc. rewrite <- (Hc d Hd).
    apply construct_enc_drop. unfold valid_emulsion in Hv. rewrite forallb_forall in Hv. apply Hv. exact Hd.
Qed.

(* ------------------------------------------------------------------------------------------ *)
(* tracks                                                                                     *)
(* ------------------------------------------------------------------------------------------ *)
Lemma enc_drop_keys d kv : In kv (enc_drop d) -> In (fst kv) drop_fields.
Proof.
  unfold enc_drop, drop_fields. intros H.
  repeat (apply in_app_or in H as [H|H]).
  - simpl in H. destruct H as [<-|[<-|[]]]; simpl; tauto.
  - destruct (width d); simpl in H; [destruct H as [<-|[]]; simpl; tauto | contradiction].
  - destruct (has_ampl (cls d)); simpl in H; [destruct H as [<-|[]]; simpl; tauto | contradiction].
Qed.

Lemma lookup_app_skip {V} k (r : list (string * V)) v :
  (forall kv, In kv r -> String.eqb (fst kv) k = false) -> lookup k (r ++ [(k, v)]) = Some v.
Proof.
  induction r as [|[k' v'] t IH]; intros H; simpl.
  - rewrite String.eqb_refl. reflexivity.
  - pose proof (H (k', v') (or_introl eq_refl)) as E; cbn [fst] in E; rewrite E. apply IH. intros kv Hkv. apply H. right. exact Hkv.
Qed.

Lemma remove_field_none k (r : row) :
  (forall kv, In kv r -> String.eqb (fst kv) k = false) -> remove_field k r = r.
Proof.
  induction r as [|[k' v'] t IH]; intros H; simpl; [reflexivity|].
  pose proof (H (k', v') (or_introl eq_refl)) as E; cbn [fst] in E; rewrite E. rewrite IH; [reflexivity|]. intros kv Hkv. apply H. right. exact Hkv.
Qed.

Lemma remove_field_app k (r : row) v :
  (forall kv, In kv r -> String.eqb (fst kv) k = false) -> remove_field k (r ++ [(k, v)]) = r.
Proof.
  induction r as [|[k' v'] t IH]; intros H; simpl.
  - rewrite String.eqb_refl. reflexivity.
  - pose proof (H (k', v') (or_introl eq_refl)) as E; cbn [fst] in E; rewrite E. rewrite IH; [reflexivity|]. intros kv Hkv. apply H. right. exact Hkv.
Qed.

Section TrackRows.
  Variable fm : fmt.
  Hypothesis Hff : fmt_facts fm.

  Lemma time_not_field d kv : In kv (enc_drop d) -> String.eqb (fst kv) (tr_time_w fm) = false.
  Proof. intros H. apply (ff_tr_time_fields fm Hff). apply (enc_drop_keys d). exact H. Qed.

  Lemma lookup_place_time b d : lookup (tr_time_r fm) (place_time fm b (enc_drop d)) = Some (FS b).
  Proof.
    rewrite <- (ff_tr_time_r fm Hff). unfold place_time. destruct (tr_time_first fm).
    - apply lookup_head.
    - apply lookup_app_skip. apply time_not_field.
  Qed.

  Lemma remove_place_time b d : remove_field (tr_time_drop fm) (place_time fm b (enc_drop d)) = enc_drop d.
  Proof.
    rewrite <- (ff_tr_time_drop fm Hff). unfold place_time. destruct (tr_time_first fm).
    - cbn [remove_field]. rewrite String.eqb_refl. apply remove_field_none. apply time_not_field.
    - apply remove_field_app. apply time_not_field.
  Qed.
End TrackRows.

Lemma fit_eq n l : List.length l = n -> fit n l = Ok l.
Proof. intros H. unfold fit. rewrite H, Nat.eqb_refl. reflexivity. Qed.

Lemma fit_ok_cases n l l' : fit n l = Ok l' ->
  (List.length l = n /\ l' = l) \/ (List.length l = 1%nat /\ List.length l <> n).
Proof.
  unfold fit. destruct (Nat.eqb_spec (List.length l) n) as [He|Hne].
  - intros H. injection H as <-. left. auto.
  - destruct l as [|x [|y t]]; try discriminate. intros _. right. auto.
Qed.

(* per-member conditions under which a row of a written track is the member's own record *)
Definition member_ok (d0 d : drop) : Prop :=
  valid_drop d = true /\ cls d = cls d0 /\ List.length (dpos d) = List.length (dpos d0)
  /\ List.length (ampl d) = List.length (ampl d0).

Lemma enc_track_row_plain fm d0 t d r :
  member_ok d0 d -> enc_track_row fm d0 (t, d) = Ok r ->
  exists b, time_f64 t = Ok b /\ r = place_time fm b (enc_drop d).
Proof.
  intros (Hv & Hc & Hdim & Hnb) H. apply valid_drop_parts in Hv as (Hwf & _).
  unfold enc_track_row in H.
  destruct (negb (Bool.eqb (is_some (width d)) (is_some (width d0)))); [discriminate|].
  apply bind_ok in H as (b & Hb & H). apply bind_ok in H as (p & Hp & H). apply bind_ok in H as (a & Ha & H).
  injection H as <-. exists b. split; [exact Hb|]. f_equal.
  rewrite (fit_eq _ _ Hdim) in Hp. injection Hp as <-.
  assert (Ea : a = ampl d).
  { unfold wf_drop in Hwf. apply andb_prop in Hwf as [_ Hwa]. rewrite Hc in Hwa.
    destruct (has_ampl (cls d0)).
    - apply fit_ok_cases in Ha as [[_ E]|[E1 E2]]; [exact E|]. exfalso. congruence.
    - injection Ha as <-. cbn [orb] in Hwa. destruct (ampl d); [reflexivity|discriminate]. }
  rewrite Ea, <- Hc. destruct d; reflexivity.
Qed.

Definition trow (fm : fmt) (bd : F * drop) : row := place_time fm (fst bd) (enc_drop (snd bd)).

Lemma enc_track_rows_plain fm d0 l : forall rows,
  Forall (member_ok d0) (map snd l) ->
  mapM (enc_track_row fm d0) l = Ok rows ->
  exists lt, Forall2 (fun td bd => time_f64 (fst td) = Ok (fst bd) /\ snd bd = snd td) l lt
             /\ rows = map (trow fm) lt.
Proof.
  induction l as [|[t d] rest IH]; intros rows Hm H; simpl in H.
  - injection H as <-. exists []. split; [constructor|reflexivity].
  - apply bind_ok in H as (r & Hr & H). apply bind_ok in H as (rs & Hrs & H). injection H as <-.
    simpl in Hm. inversion Hm as [|? ? Hd Hrest]; subst.
    destruct (enc_track_row_plain _ _ _ _ _ Hd Hr) as (b & Hb & ->).
    destruct (IH _ Hrest Hrs) as (lt & Hlt & ->).
    exists ((b, d) :: lt). split; [constructor; [split; [exact Hb|reflexivity] | exact Hlt] | reflexivity].
Qed.

Lemma dec_track_rows_ok c n : forall lt last,
  Forall (fun d => valid_drop d = true /\ cls d = c /\ List.length (dpos d) = n) (map snd lt) ->
  (last = None \/ last = Some n) ->
  dec_track_rows (class_name c) last (map (fun bd => (fst bd, enc_drop (snd bd))) lt)
  = Ok (map (fun bd => (TFloat (fst bd), snd bd)) lt).
Proof.
  induction lt as [|[b d] rest IH]; intros last Hall Hlast; [reflexivity|].
  simpl in Hall. apply Forall_cons_iff in Hall as [(Hv & Hc & Hn) Hrest].
  cbn [map dec_track_rows fst snd].
  rewrite <- Hc at 1. rewrite (construct_enc_drop d Hv). cbn [bind].
  assert (Hchk : (match last with Some n0 => negb (Nat.eqb (List.length (dpos d)) n0) | None => false end) = false).
  { destruct Hlast as [->| ->]; [reflexivity|]. rewrite Hn, Nat.eqb_refl. reflexivity. }
  rewrite Hchk. rewrite Hn. rewrite (IH (Some n) Hrest (or_intror eq_refl)). reflexivity.
Qed.

Lemma combine_map_fst_snd {A B C} (f : A -> B) (g : A -> C) l :
  combine (map f l) (map g l) = map (fun x => (f x, g x)) l.
Proof. induction l as [|x t IH]; simpl; [reflexivity|]. rewrite IH. reflexivity. Qed.

Lemma sel_member_P {A} (P : A -> Prop) (s : member_sel) x0 (l : list A) :
  P x0 -> Forall P l -> P (sel_member s x0 l).
Proof.
  intros H0 Hl. destruct s; simpl; [exact H0|].
  revert x0 H0. induction Hl as [|x t Hx Ht IH]; intros x0 H0; simpl; [exact H0|].
  destruct t; [exact Hx|]. apply IH. exact H0.
Qed.

Lemma same_dims_Forall n l : same_dims n l = true -> Forall (fun d => List.length (dpos d) = n) (map snd l).
Proof.
  induction l as [|[t d] rest IH]; simpl; intros H; constructor.
  - apply andb_prop in H as [H _]. apply Nat.eqb_eq. exact H.
  - apply IH. apply andb_prop in H as [_ H]. exact H.
Qed.

(* the read-back track: same droplets, every time replaced by the double stored in the f8 column *)
Definition float_times (l l' : track) : Prop :=
  Forall2 (fun x y => snd y = snd x /\ exists b, time_f64 (fst x) = Ok b /\ fst y = TFloat b) l l'.

Lemma layout_eqb_parts a b : layout_eqb (layout a) (layout b) = true ->
  List.length (dpos a) = List.length (dpos b) /\ List.length (ampl a) = List.length (ampl b).
Proof.
  unfold layout, layout_eqb. intros H. rewrite !andb_true_iff in H. destruct H as [[H1 _] H3].
  apply Nat.eqb_eq in H1, H3. auto.
Qed.

(* the layout check of DropletTrack.data: a track that is written has members of one layout *)
Lemma enc_track_uniform fm l ds : (exists e, tr_layout_guard fm = Some e) -> enc_track fm l = Ok ds ->
  match l with
  | [] => True
  | td0 :: _ => forallb (fun td => layout_eqb (layout (snd td)) (layout (snd td0))) l = true
  end.
Proof.
  intros [e He] Henc. destruct l as [|td0 rest]; [exact I|]. unfold enc_track in Henc.
  destruct (negb _); [discriminate|]. unfold layout_guard in Henc. rewrite He in Henc.
  destruct (forallb _ (td0 :: rest)); [reflexivity|discriminate].
Qed.

Lemma dec_enc_track_core fm l ds :
  fmt_ok fm = true -> valid_track l = true ->
  enc_track fm l = Ok ds -> exists l', dec_track fm ds = Ok l' /\ float_times l l'.
Proof.
  intros Hfm Hv Henc. pose proof Henc as Henc0. apply fmt_ok_facts in Hfm. pose proof Hfm as Hff. destruct Hfm.
  unfold enc_track in Henc. destruct l as [|td0 rest].
  - injection Henc as <-. exists []. split; [|constructor].
    unfold dec_track, none_dataset. cbn [ds_attrs ds_body].
    rewrite ff_tr_attr0, lookup_head, ff_tr_none0, String.eqb_refl. reflexivity.
  - set (l := td0 :: rest) in *. set (d0 := snd td0) in *.
    destruct (forallb (fun td => class_eqb (cls (snd td)) (cls d0)) l) eqn:Hc; [|discriminate].
    cbn [negb] in Henc.
    pose proof (enc_track_uniform fm l ds ff_guard0 Henc0) as Hlay.
    change (forallb (fun td => layout_eqb (layout (snd td)) (layout d0)) l = true) in Hlay.
    destruct (layout_guard fm d0 l); [discriminate|].
    apply bind_ok in Henc as (rows & Hrows & Henc).
    destruct (zero_sized d0); [discriminate|]. injection Henc as <-.
    (* facts about the members *)
    unfold valid_track in Hv. apply andb_prop in Hv as [Hvd Hsd].
    assert (Hsd' : same_dims (List.length (dpos d0)) l = true).
    { subst l d0. destruct td0. exact Hsd. }
    apply same_dims_Forall in Hsd'.
    assert (Hm : Forall (member_ok d0) (map snd l)).
    { apply Forall_forall. intros d Hd. apply in_map_iff in Hd as (td & <- & Htd).
      rewrite forallb_forall in Hvd, Hc. rewrite Forall_forall in Hsd'.
      repeat split.
      - apply Hvd. exact Htd.
      - apply class_eqb_eq. apply Hc. exact Htd.
      - apply Hsd'. apply in_map. exact Htd.
      - rewrite forallb_forall in Hlay. apply (layout_eqb_parts (snd td) d0). apply Hlay. exact Htd. }
    destruct (enc_track_rows_plain fm d0 l rows Hm Hrows) as (lt & Hlt & ->).
    assert (Hsnd : map snd lt = map snd l).
    { clear -Hlt. induction Hlt as [|x y l1 l2 [_ H] _ IH]; simpl; [reflexivity|]. rewrite H, IH. reflexivity. }
    exists (map (fun bd => (TFloat (fst bd), snd bd)) lt). split.
    + unfold dec_track. cbn [ds_attrs ds_body]. rewrite ff_tr_attr0, lookup_head.
      assert (Hsel : cls (snd (sel_member (tr_sel fm) td0 l)) = cls d0).
      { apply (sel_member_P (fun td => cls (snd td) = cls d0)); [reflexivity|].
        apply Forall_forall. intros td Htd. rewrite forallb_forall in Hc. apply class_eqb_eq. apply Hc. exact Htd. }
      rewrite Hsel, ff_tr_none_cls0.
      rewrite mapM_map.
      rewrite (mapM_all_ok _ fst) by (intros bd _; unfold trow; rewrite (lookup_place_time fm Hff); reflexivity).
      cbn [bind]. rewrite map_map.
      rewrite (map_ext _ (fun bd => enc_drop (snd bd))) by (intros bd; unfold trow; apply (remove_place_time fm Hff)).
      rewrite combine_map_fst_snd.
      apply (dec_track_rows_ok (cls d0) (List.length (dpos d0))); [|left; reflexivity].
      rewrite Hsnd. apply Forall_forall. intros d Hd. rewrite Forall_forall in Hm.
      destruct (Hm d Hd) as (H1 & H2 & H3 & _). auto.
    + unfold float_times. clear -Hlt. induction Hlt as [|x y l1 l2 [H1 H2] _ IH]; simpl; constructor.
      * cbn [fst snd]. split; [exact H2|]. exists (fst y). auto.
      * exact IH.
Qed.

(* ------------------------------------------------------------------------------------------ *)
(* integers within +-2^53 are stored exactly in the f8 time column                            *)
(* ------------------------------------------------------------------------------------------ *)
Lemma two52_pos : 0 < two52. Proof. reflexivity. Qed.
Lemma two63_eq : two63 = 2048 * two52. Proof. reflexivity. Qed.

Lemma f64_of_pos_exact a b : 0 < a <= 2 ^ 53 -> f64_of_pos a = Some b ->
  0 <= b < two63 /\ f64_mag_int b = Some a.
Proof.
  intros Ha H. destruct (Z.eq_dec a (2 ^ 53)) as [->|Hne].
  { vm_compute in H. injection H as <-. vm_compute. split; [split; [discriminate|reflexivity] | reflexivity]. }
  unfold f64_of_pos in H.
  pose proof (Z.log2_spec a ltac:(lia)) as Hlog. pose proof (Z.log2_nonneg a) as Hn0.
  set (n := Z.log2 a) in *.
  assert (Hn52 : n <= 52).
  { destruct (Z_le_gt_dec n 52); [assumption|]. exfalso.
    assert (2 ^ 53 <= 2 ^ n) by (apply Z.pow_le_mono_r; lia). lia. }
  destruct (Z.leb_spec n 52) as [Hn|Hn].
  - set (k := 52 - n) in *.
    assert (Eb : b = (n + 1023) * two52 + (a * 2 ^ k - two52)) by congruence. clear H. subst b.
    assert (Hk : 0 <= k) by (unfold k; lia).
    assert (Hpk : 0 < 2 ^ k) by (apply Z.pow_pos_nonneg; lia).
    assert (H52 : 2 ^ n * 2 ^ k = two52).
    { rewrite <- Z.pow_add_r by lia. unfold k. replace (n + (52 - n)) with 52 by lia. reflexivity. }
    assert (HM : two52 <= a * 2 ^ k < 2 * two52).
    { unfold Z.succ in Hlog. rewrite Z.pow_add_r in Hlog by lia. change (2 ^ 1) with 2 in Hlog.
      destruct Hlog as [Hl1 Hl2]. rewrite <- H52. split.
      - apply Z.mul_le_mono_nonneg_r; lia.
      - replace (2 * (2 ^ n * 2 ^ k)) with ((2 ^ n * 2) * 2 ^ k) by ring.
        apply Z.mul_lt_mono_pos_r; lia. }
    set (M := a * 2 ^ k) in *. set (r := M - two52).
    pose proof two52_pos as Hp.
    assert (Hb : (n + 1023) * two52 + r = r + (n + 1023) * two52) by lia.
    split.
    + rewrite two63_eq. unfold r.
      assert (0 <= (n + 1023) * two52 <= 1075 * two52)
        by (split; [apply Z.mul_nonneg_nonneg; lia | apply Z.mul_le_mono_nonneg_r; lia]).
      lia.
    + unfold f64_mag_int. rewrite Hb.
      rewrite Z_div_plus_full by lia. rewrite Z_mod_plus_full.
      rewrite (Z.div_small r two52) by (unfold r; lia). rewrite (Z.mod_small r two52) by (unfold r; lia).
      cbn [Z.add]. replace (0 + (n + 1023)) with (n + 1023) by lia.
      destruct (Z.eqb_spec (n + 1023) 2047); [lia|]. destruct (Z.eqb_spec (n + 1023) 0); [lia|].
      replace (two52 + r) with M by (unfold r; lia).
      replace (n + 1023 - 1075) with (- k) by (unfold k; lia).
      destruct (Z.leb_spec 0 (- k)) as [Hk0|Hk0].
      * assert (k = 0) by lia. subst M. rewrite H. change (- 0) with 0. change (2 ^ 0) with 1. f_equal. lia.
      * rewrite Z.opp_involutive. unfold M. rewrite Z.mod_mul by lia. rewrite Z.eqb_refl.
        rewrite Z.div_mul by lia. reflexivity.
  - lia.
Qed.

Lemma f64_of_Z_exact z b : Z.abs z <= 2 ^ 53 -> f64_of_Z z = Some b -> f64_exact_int b = Some z.
Proof.
  intros Hz H. unfold f64_of_Z in H.
  destruct (Z.eqb_spec z 0) as [->|Hz0].
  - injection H as <-. reflexivity.
  - destruct (Z.ltb_spec 0 z) as [Hpos|Hneg].
    + destruct (f64_of_pos_exact z b ltac:(lia) H) as [Hb Hm].
      unfold f64_exact_int, f_mag. rewrite Z.mod_small by exact Hb. rewrite Hm. cbn [option_map].
      rewrite Z.div_small by exact Hb. reflexivity.
    + destruct (f64_of_pos (- z)) as [b'|] eqn:Hb'; [|discriminate]. cbn [option_map] in H.
      assert (Eb : b = two63 + b') by congruence. clear H. subst b.
      destruct (f64_of_pos_exact (- z) b' ltac:(lia) Hb') as [Hb Hm].
      unfold f64_exact_int, f_mag.
      replace (two63 + b') with (b' + 1 * two63) by lia.
      rewrite Z_mod_plus_full, Z_div_plus_full by (unfold two63; lia).
      rewrite Z.mod_small by exact Hb. rewrite Hm. cbn [option_map].
      rewrite Z.div_small by exact Hb. cbn. f_equal. lia.
Qed.

Lemma float_times_same l l' : times_exact l = true -> float_times l l' -> track_same l l'.
Proof.
  intros Ht H. unfold track_same. induction H as [|x y l1 l2 (Hs & b & Hb & Hy) _ IH]; constructor.
  - cbn in Ht. apply andb_prop in Ht as [Htx _]. split; [|symmetry; exact Hs].
    rewrite Hy. destruct (fst x) as [z|f]; cbn [time_f64 time_exact] in *.
    + destruct (f64_of_Z z) as [b0|] eqn:E; [|discriminate]. injection Hb as <-.
      cbn [time_eqb]. rewrite (f64_of_Z_exact z b0 ltac:(lia) E). apply Z.eqb_refl.
    + injection Hb as <-. cbn [time_eqb]. rewrite Htx, Z.eqb_refl. reflexivity.
  - apply IH. cbn in Ht. apply andb_prop in Ht as [_ Ht]. exact Ht.
Qed.
