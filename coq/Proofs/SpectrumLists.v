(* Spectrum, part 1: list sums, the multi-index set of an n-d array, and the index
   transformations (cyclic shift, reflection, adjacent axis transposition) as permutations. *)
From Coq Require Import Reals Lra List ZArith Lia Bool Permutation Arith.
Import ListNotations.
From PD Require Import Model.Spectrum.
Local Open Scope R_scope.

(* ------------------------------------------------------------------ sums *)
Lemma rsum_app l1 l2 : rsum (l1 ++ l2) = rsum l1 + rsum l2.
Proof. unfold rsum. induction l1 as [|a l IH]; simpl; [lra|rewrite IH; lra]. Qed.

Lemma rsum_cons a l : rsum (a :: l) = a + rsum l.
Proof. reflexivity. Qed.

Lemma rsum_perm l l' : Permutation l l' -> rsum l = rsum l'.
Proof.
  intros HP. induction HP as [|a l l' _ IH|a b l|l l' l'' _ IH1 _ IH2].
  - reflexivity.
  - rewrite !rsum_cons, IH. reflexivity.
  - rewrite !rsum_cons. lra.
  - rewrite IH1. exact IH2.
Qed.

Lemma rsum_map_scale {A} (c : R) (f : A -> R) l :
  rsum (map (fun a => c * f a) l) = c * rsum (map f l).
Proof. unfold rsum in *. induction l as [|a l IH]; simpl; [lra|rewrite IH; lra]. Qed.

Lemma rsum_map_div {A} (c : R) (f : A -> R) l :
  rsum (map (fun a => f a / c) l) = rsum (map f l) / c.
Proof.
  unfold rsum in *. induction l as [|a l IH]; simpl; [unfold Rdiv; lra|].
  rewrite IH. unfold Rdiv. lra.
Qed.

Lemma rsum_map_ext_in {A} (f g : A -> R) l :
  (forall a, In a l -> f a = g a) -> rsum (map f l) = rsum (map g l).
Proof. intros H. f_equal. apply map_ext_in. exact H. Qed.

Lemma rsum_nonneg l : Forall (fun a => 0 <= a) l -> 0 <= rsum l.
Proof.
  induction 1 as [|a l Ha _ IH]; [unfold rsum; simpl; lra|rewrite rsum_cons; lra].
Qed.

Lemma rsum_map_nonneg {A} (f : A -> R) l : (forall a, 0 <= f a) -> 0 <= rsum (map f l).
Proof. intros H. apply rsum_nonneg. apply Forall_forall. intros y Hy. apply in_map_iff in Hy.
  destruct Hy as [a [<- _]]. apply H. Qed.

Lemma sum_over_perm {A} (l l' : list A) (f : A -> R) :
  Permutation l l' -> sum_over l f = sum_over l' f.
Proof. intros HP. unfold sum_over. apply rsum_perm. apply Permutation_map. exact HP. Qed.

(* re-indexing a sum through a map p that permutes the index set *)
Lemma sum_over_reindex {A} (idx idx' : list A) (p : A -> A) (f : A -> R) :
  Permutation (map p idx') idx -> sum_over idx' (fun n => f (p n)) = sum_over idx f.
Proof.
  intros HP. unfold sum_over. rewrite <- (rsum_perm _ _ (Permutation_map f HP)).
  rewrite map_map. reflexivity.
Qed.

(* sum of squares is positive unless it vanishes *)
Lemma sumsq_nonneg {A} (idx : list A) (x : A -> R) : 0 <= sum_over idx (fun n => x n ^ 2).
Proof. unfold sum_over. apply rsum_map_nonneg. intros a. apply pow2_ge_0. Qed.

Lemma sumsq_pos {A} (idx : list A) (x : A -> R) :
  sum_over idx (fun n => x n ^ 2) <> 0 -> 0 < sum_over idx (fun n => x n ^ 2).
Proof. intros H. pose proof (sumsq_nonneg idx x). lra. Qed.

Lemma cabs2_nonneg z : 0 <= cabs2 z.
Proof. unfold cabs2. nra. Qed.

Lemma cabs_sq z : cabs z ^ 2 = cabs2 z.
Proof.
  unfold cabs. replace (sqrt (cabs2 z) ^ 2) with (sqrt (cabs2 z) * sqrt (cabs2 z)) by ring.
  apply sqrt_sqrt. apply cabs2_nonneg.
Qed.

(* ------------------------------------------------------------------ the index set *)
Lemma in_all_idx shape k : In k (all_idx shape) <-> valid_idx shape k.
Proof.
  unfold valid_idx. revert k. induction shape as [|n rest IH]; intros k; simpl.
  - split.
    + intros [<-|[]]. constructor.
    + intros H. inversion H. left. reflexivity.
  - rewrite in_flat_map. split.
    + intros [m [Hm Hk]]. apply in_map_iff in Hk. destruct Hk as [k' [<- Hk']].
      apply in_seq in Hm. constructor; [lia|]. apply IH. exact Hk'.
    + intros H. inversion H as [|n' m shape' k' Hm Hk' E1 E2]. subst.
      exists m. split; [apply in_seq; lia|]. apply in_map. apply IH. exact Hk'.
Qed.

Lemma NoDup_app_intro {A} (l1 l2 : list A) :
  NoDup l1 -> NoDup l2 -> (forall x, In x l1 -> In x l2 -> False) -> NoDup (l1 ++ l2).
Proof.
  induction l1 as [|a l1 IH]; intros H1 H2 H; simpl; [exact H2|].
  inversion H1 as [|a' l' Ha Hl]; subst. constructor.
  - intros Hin. apply in_app_or in Hin. destruct Hin as [Hin|Hin]; [contradiction|].
    apply (H a); [left; reflexivity|exact Hin].
  - apply IH; [exact Hl|exact H2|]. intros x Hx1 Hx2. apply (H x); [right; exact Hx1|exact Hx2].
Qed.

Lemma NoDup_all_idx shape : NoDup (all_idx shape).
Proof.
  induction shape as [|n rest IH]; simpl.
  - constructor; [intros []|constructor].
  - assert (Hgen : forall l, NoDup l -> NoDup (flat_map (fun m => map (cons m) (all_idx rest)) l)).
    { induction l as [|a l IHl]; intros Hnd; simpl; [constructor|].
      inversion Hnd as [|a' l' Ha Hl]; subst.
      apply NoDup_app_intro.
      - apply FinFun.Injective_map_NoDup; [|exact IH]. intros u v E. inversion E. reflexivity.
      - apply IHl. exact Hl.
      - intros k H1 H2. apply in_map_iff in H1. destruct H1 as [k1 [<- _]].
        apply in_flat_map in H2. destruct H2 as [m [Hm H2]]. apply in_map_iff in H2.
        destruct H2 as [k2 [E _]]. inversion E. subst. contradiction. }
    apply Hgen. apply seq_NoDup.
Qed.
