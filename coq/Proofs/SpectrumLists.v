(* Spectrum, part 1: list sums, the multi-index set of an n-d array, and the index
   transformations (cyclic shift, reflection, adjacent axis transposition) as permutations. *)
From Coq Require Import Reals Lra List ZArith Lia Bool Permutation Arith.
Import ListNotations.
From PD Require Import Model.Spectrum.
Local Open Scope R_scope.

(* ------------------------------------------------------------------ sums *)
Lemma rsum_app l1 l2 : rsum (l1 ++ l2) = rsum l1 + rsum l2.
Proof. unfold rsum. induction l1 as [|a l IH]; simpl; [lra|rewrite IH; lra]. Qed.

Lemma rsum_cons a l : rsum (a :: l) = a + rsum l.
Proof. reflexivity. Qed.

Lemma rsum_perm l l' : Permutation l l' -> rsum l = rsum l'.
Proof.
  intros HP. induction HP as [|a l l' _ IH|a b l|l l' l'' _ IH1 _ IH2].
  - reflexivity.
  - rewrite !rsum_cons, IH. reflexivity.
  - rewrite !rsum_cons. lra.
  - rewrite IH1. exact IH2.
Qed.

Lemma rsum_map_scale {A} (c : R) (f : A -> R) l :
  rsum (map (fun a => c * f a) l) = c * rsum (map f l).
Proof. unfold rsum in *. induction l as [|a l IH]; simpl; [lra|rewrite IH; lra]. Qed.

Lemma rsum_map_div {A} (c : R) (f : A -> R) l :
  rsum (map (fun a => f a / c) l) = rsum (map f l) / c.
Proof.
  unfold rsum in *. induction l as [|a l IH]; simpl; [unfold Rdiv; lra|].
  rewrite IH. unfold Rdiv. lra.
Qed.

Lemma rsum_map_ext_in {A} (f g : A -> R) l :
  (forall a, In a l -> f a = g a) -> rsum (map f l) = rsum (map g l).
Proof. intros H. f_equal. apply map_ext_in. exact H. Qed.

Lemma rsum_nonneg l : Forall (fun a => 0 <= a) l -> 0 <= rsum l.
Proof.
  induction 1 as [|a l Ha _ IH]; [unfold rsum; simpl; lra|rewrite rsum_cons; lra].
Qed.

Lemma rsum_map_nonneg {A} (f : A -> R) l : (forall a, 0 <= f a) -> 0 <= rsum (map f l).
Proof. intros H. apply rsum_nonneg. apply Forall_forall. intros y Hy. apply in_map_iff in Hy.
  destruct Hy as [a [<- _]]. apply H. Qed.

Lemma sum_over_perm {A} (l l' : list A) (f : A -> R) :
  Permutation l l' -> sum_over l f = sum_over l' f.
Proof. intros HP. unfold sum_over. apply rsum_perm. apply Permutation_map. exact HP. Qed.

(* re-indexing a sum through a map p that permutes the index set *)
Lemma sum_over_reindex {A} (idx idx' : list A) (p : A -> A) (f : A -> R) :
  Permutation (map p idx') idx -> sum_over idx' (fun n => f (p n)) = sum_over idx f.
Proof.
  intros HP. unfold sum_over. rewrite <- (rsum_perm _ _ (Permutation_map f HP)).
  rewrite map_map. reflexivity.
Qed.

(* sum of squares is positive unless it vanishes *)
Lemma sumsq_nonneg {A} (idx : list A) (x : A -> R) : 0 <= sum_over idx (fun n => x n ^ 2).
Proof. unfold sum_over. apply rsum_map_nonneg. intros a. apply pow2_ge_0. Qed.

Lemma sumsq_pos {A} (idx : list A) (x : A -> R) :
  sum_over idx (fun n => x n ^ 2) <> 0 -> 0 < sum_over idx (fun n => x n ^ 2).
Proof. intros H. pose proof (sumsq_nonneg idx x). lra. Qed.

Lemma cabs2_nonneg z : 0 <= cabs2 z.
Proof. unfold cabs2. nra. Qed.

Lemma cabs_sq z : cabs z ^ 2 = cabs2 z.
Proof.
  unfold cabs. replace (sqrt (cabs2 z) ^ 2) with (sqrt (cabs2 z) * sqrt (cabs2 z)) by ring.
  apply sqrt_sqrt. apply cabs2_nonneg.
Qed.

(* ------------------------------------------------------------------ the index set *)
Lemma in_all_idx shape k : In k (all_idx shape) <-> valid_idx shape k.
Proof.
  unfold valid_idx. revert k. induction shape as [|n rest IH]; intros k; simpl.
  - split.
    + intros [<-|[]]. constructor.
    + intros H. inversion H. left. reflexivity.
  - rewrite in_flat_map. split.
    + intros [m [Hm Hk]]. apply in_map_iff in Hk. destruct Hk as [k' [<- Hk']].
      apply in_seq in Hm. constructor; [lia|]. apply IH. exact Hk'.
    + intros H. inversion H as [|n' m shape' k' Hm Hk' E1 E2]. subst.
      exists m. split; [apply in_seq; lia|]. apply in_map. apply IH. exact Hk'.
Qed.

Lemma NoDup_app_intro {A} (l1 l2 : list A) :
  NoDup l1 -> NoDup l2 -> (forall x, In x l1 -> In x l2 -> False) -> NoDup (l1 ++ l2).
Proof.
  induction l1 as [|a l1 IH]; intros H1 H2 H; simpl; [exact H2|].
  inversion H1 as [|a' l' Ha Hl]; subst. constructor.
  - intros Hin. apply in_app_or in Hin. destruct Hin as [Hin|Hin]; [contradiction|].
    apply (H a); [left; reflexivity|exact Hin].
  - apply IH; [exact Hl|exact H2|]. intros x Hx1 Hx2. apply (H x); [right; exact Hx1|exact Hx2].
Qed.

Lemma NoDup_all_idx shape : NoDup (all_idx shape).
Proof.
  induction shape as [|n rest IH]; simpl.
  - constructor; [intros []|constructor].
  - assert (Hgen : forall l, NoDup l -> NoDup (flat_map (fun m => map (cons m) (all_idx rest)) l)).
    { induction l as [|a l IHl]; intros Hnd; simpl; [constructor|].
      inversion Hnd as [|a' l' Ha Hl]; subst.
      apply NoDup_app_intro.
      - apply FinFun.Injective_map_NoDup; [|exact IH]. intros u v E. inversion E. reflexivity.
      - apply IHl. exact Hl.
      - intros k H1 H2. apply in_map_iff in H1. destruct H1 as [k1 [<- _]].
        apply in_flat_map in H2. destruct H2 as [m [Hm H2]]. apply in_map_iff in H2.
        destruct H2 as [k2 [E _]]. inversion E. subst. contradiction. }
    apply Hgen. apply seq_NoDup.
Qed.

(* the zero mode is the first element of `.flat` *)
Lemma all_idx_head shape : Forall (fun n => (0 < n)%nat) shape ->
  exists r, all_idx shape = zero_idx shape :: r.
Proof.
  induction 1 as [|n rest Hn _ [r IH]]; simpl.
  - exists []. reflexivity.
  - destruct n as [|n']; [lia|]. simpl. rewrite IH. simpl. eexists. reflexivity.
Qed.

Lemma all_idx_nonempty_pos shape : Forall (fun n => (0 < n)%nat) shape -> (0 < size_of shape)%nat.
Proof. intros H. destruct (all_idx_head shape H) as [r E]. unfold size_of. rewrite E. simpl. lia. Qed.

Lemma zero_not_in_tail shape r : all_idx shape = zero_idx shape :: r -> ~ In (zero_idx shape) r.
Proof.
  intros E. pose proof (NoDup_all_idx shape) as H. rewrite E in H. inversion H. assumption.
Qed.

(* ------------------------------------------------------------------ permutations from bijections *)
Lemma NoDup_map_inj_in {A B} (p : A -> B) l :
  (forall a b, In a l -> In b l -> p a = p b -> a = b) -> NoDup l -> NoDup (map p l).
Proof.
  intros Hinj Hnd. induction Hnd as [|a l Ha Hl IH]; simpl; constructor.
  - intros Hin. apply in_map_iff in Hin. destruct Hin as [b [E Hb]].
    assert (b = a) by (apply Hinj; [right; exact Hb|left; reflexivity|exact E]). subst. contradiction.
  - apply IH. intros x y Hx Hy. apply Hinj; right; assumption.
Qed.

Lemma perm_of_injection {A} (p : A -> A) (l : list A) :
  NoDup l -> (forall a, In a l -> In (p a) l) ->
  (forall a b, In a l -> In b l -> p a = p b -> a = b) -> Permutation (map p l) l.
Proof.
  intros Hnd Hin Hinj. apply NoDup_Permutation_bis.
  - apply NoDup_map_inj_in; assumption.
  - rewrite map_length. lia.
  - intros y Hy. apply in_map_iff in Hy. destruct Hy as [a [<- Ha]]. apply Hin. exact Ha.
Qed.

Lemma perm_of_bijection {A} (p q : A -> A) (l' l : list A) :
  NoDup l' -> NoDup l ->
  (forall a, In a l' -> In (p a) l /\ q (p a) = a) ->
  (forall b, In b l -> In (q b) l' /\ p (q b) = b) ->
  Permutation (map p l') l.
Proof.
  intros H' H Hp Hq. apply NoDup_Permutation.
  - apply NoDup_map_inj_in; [|exact H']. intros a b Ha Hb E.
    rewrite <- (proj2 (Hp a Ha)), <- (proj2 (Hp b Hb)), E. reflexivity.
  - exact H.
  - intros y. split.
    + intros Hy. apply in_map_iff in Hy. destruct Hy as [a [<- Ha]]. apply Hp. exact Ha.
    + intros Hy. apply in_map_iff. exists (q y). destruct (Hq y Hy) as [H1 H2]. split; assumption.
Qed.

(* ------------------------------------------------------------------ cyclic shift *)
Lemma shift_mod_inj n a m1 m2 :
  (m1 < n -> m2 < n -> (m1 + a) mod n = (m2 + a) mod n -> m1 = m2)%nat.
Proof.
  intros H1 H2 E. assert (Hn : n <> 0%nat) by lia.
  pose proof (Nat.div_mod (m1 + a) n Hn) as D1. pose proof (Nat.div_mod (m2 + a) n Hn) as D2.
  rewrite E in D1.
  set (q1 := ((m1 + a) / n)%nat) in *. set (q2 := ((m2 + a) / n)%nat) in *.
  assert (E2 : (n * q1 + m2 = n * q2 + m1)%nat) by lia.
  destruct (lt_eq_lt_dec q1 q2) as [[Hl|He]|Hg].
  - assert (n * q1 + n <= n * q2)%nat by nia. lia.
  - rewrite He in E2. lia.
  - assert (n * q2 + n <= n * q1)%nat by nia. lia.
Qed.

Lemma shift_valid shape s k : valid_idx shape k -> valid_idx shape (shift_idx shape s k).
Proof.
  unfold valid_idx. intros H. revert s. induction H as [|n m shape k Hm Hk IH]; intros s.
  - destruct s; constructor.
  - destruct s as [|a s]; simpl.
    + constructor; assumption.
    + constructor; [apply Nat.mod_upper_bound; lia|apply IH].
Qed.

Lemma shift_inj shape s k1 k2 : valid_idx shape k1 -> valid_idx shape k2 ->
  shift_idx shape s k1 = shift_idx shape s k2 -> k1 = k2.
Proof.
  unfold valid_idx. intros H1. revert s k2.
  induction H1 as [|n m shape k Hm Hk IH]; intros s k2 H2 E.
  - inversion H2. reflexivity.
  - inversion H2 as [|n' m2 shape' k2' Hm2 Hk2]; subst. destruct s as [|a s]; simpl in E.
    + exact E.
    + inversion E as [[E1 E2]]. f_equal.
      * apply (shift_mod_inj n a); assumption.
      * apply (IH s); assumption.
Qed.

Lemma shift_perm shape s : Permutation (map (shift_idx shape s) (all_idx shape)) (all_idx shape).
Proof.
  apply perm_of_injection.
  - apply NoDup_all_idx.
  - intros k Hk. apply in_all_idx. apply shift_valid. apply in_all_idx. exact Hk.
  - intros k1 k2 H1 H2. apply shift_inj; apply in_all_idx; assumption.
Qed.

(* ------------------------------------------------------------------ reflection *)
Lemma refl_mod_lt n m : (m < n -> (n - m) mod n < n)%nat.
Proof. intros H. apply Nat.mod_upper_bound. lia. Qed.

Lemma refl_mod_invol n m : (m < n -> (n - (n - m) mod n) mod n = m)%nat.
Proof.
  intros H. destruct m.
  - rewrite Nat.sub_0_r, Nat.mod_same by lia. rewrite Nat.sub_0_r, Nat.mod_same by lia. reflexivity.
  - rewrite (Nat.mod_small (n - S m)) by lia. replace (n - (n - S m))%nat with (S m) by lia.
    apply Nat.mod_small; lia.
Qed.

Lemma reflect_valid shape ax k : valid_idx shape k -> valid_idx shape (reflect_idx shape ax k).
Proof.
  unfold valid_idx. intros H. revert ax. induction H as [|n m shape k Hm Hk IH]; intros ax.
  - destruct ax; constructor.
  - destruct ax as [|ax]; simpl; constructor; try assumption.
    + apply refl_mod_lt. exact Hm.
    + apply IH.
Qed.

Lemma reflect_invol shape ax k : valid_idx shape k ->
  reflect_idx shape ax (reflect_idx shape ax k) = k.
Proof.
  unfold valid_idx. intros H. revert ax. induction H as [|n m shape k Hm Hk IH]; intros ax.
  - destruct ax; reflexivity.
  - destruct ax as [|ax]; simpl.
    + f_equal. apply refl_mod_invol. exact Hm.
    + f_equal. apply IH.
Qed.

Lemma reflect_perm shape ax :
  Permutation (map (reflect_idx shape ax) (all_idx shape)) (all_idx shape).
Proof.
  apply (perm_of_bijection _ (reflect_idx shape ax)); try apply NoDup_all_idx.
  - intros k Hk. apply in_all_idx in Hk. split; [apply in_all_idx, reflect_valid|apply reflect_invol]; exact Hk.
  - intros k Hk. apply in_all_idx in Hk. split; [apply in_all_idx, reflect_valid|apply reflect_invol]; exact Hk.
Qed.

Lemma reflect_zero shape ax : Forall (fun n => (0 < n)%nat) shape ->
  reflect_idx shape ax (zero_idx shape) = zero_idx shape.
Proof.
  intros H. revert ax. induction H as [|n rest Hn _ IH]; intros ax; simpl.
  - destruct ax; reflexivity.
  - destruct ax as [|ax]; simpl.
    + rewrite Nat.sub_0_r, Nat.mod_same by lia. reflexivity.
    + rewrite IH. reflexivity.
Qed.

(* ------------------------------------------------------------------ adjacent axis transposition *)
Lemma swap_invol {A} i (l : list A) : swap_at i (swap_at i l) = l.
Proof.
  revert l. induction i as [|i IH]; intros l.
  - destruct l as [|a [|b r]]; reflexivity.
  - destruct l as [|a r]; simpl; [reflexivity|]. rewrite IH. reflexivity.
Qed.

Lemma swap_valid i shape k : valid_idx shape k -> valid_idx (swap_at i shape) (swap_at i k).
Proof.
  unfold valid_idx. intros H. revert i. induction H as [|n m shape k Hm Hk IH]; intros i.
  - destruct i; constructor.
  - destruct i as [|i]; simpl.
    + inversion Hk; subst; repeat constructor; assumption.
    + constructor; [exact Hm|apply IH].
Qed.

Lemma swap_perm i shape :
  Permutation (map (swap_at i) (all_idx (swap_at i shape))) (all_idx shape).
Proof.
  apply (perm_of_bijection _ (swap_at i)); try apply NoDup_all_idx.
  - intros k Hk. apply in_all_idx in Hk. split; [|apply swap_invol].
    apply in_all_idx. rewrite <- (swap_invol i shape). apply swap_valid. exact Hk.
  - intros k Hk. apply in_all_idx in Hk. split; [|apply swap_invol].
    apply in_all_idx. apply swap_valid. exact Hk.
Qed.

Lemma swap_zero i shape : swap_at i (zero_idx (swap_at i shape)) = zero_idx shape.
Proof.
  revert shape. induction i as [|i IH]; intros shape.
  - destruct shape as [|a [|b r]]; reflexivity.
  - destruct shape as [|a r]; simpl; [reflexivity|]. rewrite IH. reflexivity.
Qed.

Lemma swap_pos i shape : Forall (fun n => (0 < n)%nat) shape ->
  Forall (fun n => (0 < n)%nat) (swap_at i shape).
Proof.
  intros H. revert i. induction H as [|n rest Hn Hr IH]; intros i.
  - destruct i; constructor.
  - destruct i as [|i]; simpl.
    + inversion Hr; subst; repeat constructor; assumption.
    + constructor; [exact Hn|apply IH].
Qed.

Lemma size_swap i shape : size_of (swap_at i shape) = size_of shape.
Proof.
  unfold size_of. transitivity (length (map (swap_at i) (all_idx (swap_at i shape)))).
  - symmetry. apply map_length.
  - apply Permutation_length. apply swap_perm.
Qed.

Lemma incl_skipn_local {A} (n : nat) (l : list A) k : In k (skipn n l) -> In k l.
Proof.
  revert l. induction n as [|n IH]; intros l H; [exact H|].
  destruct l as [|a l]; [exact H|]. right. apply IH. exact H.
Qed.
