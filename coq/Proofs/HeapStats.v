(* HeapStats -- the summary queries depend only on the multiset of member values: they are
   invariant under any permutation of the members.  Also: remove_short_tracks keeps the same
   tracks whatever their order, and the nearest-time lookup returns a minimiser of |t_i - t|. *)
From Coq Require Import List Arith Bool QArith Qminmax Qabs Lia Permutation Setoid Morphisms.
Import ListNotations.
From PD Require Import Model.Heap.
Local Open Scope Q_scope.

Lemma qsum_perm l l' : Permutation l l' -> qsum l == qsum l'.
Proof.
  induction 1; simpl; try reflexivity.
  - rewrite IHPermutation. reflexivity.
  - ring.
  - rewrite IHPermutation1. exact IHPermutation2.
Qed.

Lemma qsum_map_ext (f g : Q -> Q) l : (forall x, f x == g x) -> qsum (map f l) == qsum (map g l).
Proof. intros H. induction l as [|a l IH]; simpl; [reflexivity|]. rewrite H, IH. reflexivity. Qed.

Lemma qlen_perm {A} (l l' : list A) : Permutation l l' -> qlen l = qlen l'.
Proof. intros H. unfold qlen. rewrite (Permutation_length H). reflexivity. Qed.

Lemma qmean_perm l l' : Permutation l l' -> qmean l == qmean l'.
Proof. intros H. unfold qmean. rewrite (qsum_perm _ _ H), (qlen_perm _ _ H). reflexivity. Qed.

Lemma qvariance_perm l l' : Permutation l l' -> qvariance l == qvariance l'.
Proof.
  intros H. unfold qvariance. rewrite (qlen_perm _ _ H).
  assert (E : qsum (map (fun x => (x - qmean l) * (x - qmean l)) l)
              == qsum (map (fun x => (x - qmean l') * (x - qmean l')) l')).
  { rewrite (qsum_perm _ _ (Permutation_map _ H)).
    apply qsum_map_ext. intros x. rewrite (qmean_perm _ _ H). reflexivity. }
  rewrite E. reflexivity.
Qed.

(* option Q up to Qeq *)
Definition oQeq (a b : option Q) : Prop :=
  match a, b with
  | None, None => True
  | Some x, Some y => x == y
  | _, _ => False
  end.

Lemma oQeq_refl a : oQeq a a.
Proof. destruct a; simpl; auto. reflexivity. Qed.
Lemma oQeq_trans a b c : oQeq a b -> oQeq b c -> oQeq a c.
Proof. destruct a, b, c; simpl; try tauto. intros H1 H2. rewrite H1. exact H2. Qed.

Lemma lo_bound_cons x l : lo_bound (x :: l) = match lo_bound l with None => Some x | Some m => Some (Qmin x m) end.
Proof. reflexivity. Qed.
Lemma hi_bound_cons x l : hi_bound (x :: l) = match hi_bound l with None => Some x | Some m => Some (Qmax x m) end.
Proof. reflexivity. Qed.

Lemma lo_bound_perm l l' : Permutation l l' -> oQeq (lo_bound l) (lo_bound l').
Proof.
  induction 1.
  - exact I.
  - rewrite !lo_bound_cons. destruct (lo_bound l), (lo_bound l'); simpl in *; try tauto; try reflexivity.
    rewrite IHPermutation. reflexivity.
  - rewrite !lo_bound_cons. destruct (lo_bound l); simpl.
    + rewrite !Q.min_assoc. rewrite (Q.min_comm y x). reflexivity.
    + apply Q.min_comm.
  - eapply oQeq_trans; eauto.
Qed.

Lemma hi_bound_perm l l' : Permutation l l' -> oQeq (hi_bound l) (hi_bound l').
Proof.
  induction 1.
  - exact I.
  - rewrite !hi_bound_cons. destruct (hi_bound l), (hi_bound l'); simpl in *; try tauto; try reflexivity.
    rewrite IHPermutation. reflexivity.
  - rewrite !hi_bound_cons. destruct (hi_bound l); simpl.
    + rewrite !Q.max_assoc. rewrite (Q.max_comm y x). reflexivity.
    + apply Q.max_comm.
  - eapply oQeq_trans; eauto.
Qed.

Lemma Permutation_flat_map' {A B} (f : A -> list B) l l' :
  Permutation l l' -> Permutation (flat_map f l) (flat_map f l').
Proof.
  induction 1; simpl; auto.
  - apply Permutation_app_head; auto.
  - rewrite !app_assoc. apply Permutation_app_tail. apply Permutation_app_comm.
  - eapply Permutation_trans; eauto.
Qed.

Lemma Permutation_filter' {A} (p : A -> bool) l l' :
  Permutation l l' -> Permutation (filter p l) (filter p l').
Proof.
  induction 1; simpl; auto.
  - destruct (p x); auto.
  - destruct (p x), (p y); auto. apply perm_swap.
  - eapply Permutation_trans; eauto.
Qed.

Lemma st_width_perm area vs vs' : Permutation vs vs' -> oQeq (st_width area vs) (st_width area vs').
Proof.
  intros H. unfold st_width.
  assert (P : Permutation (weighted area vs) (weighted area vs')) by (apply Permutation_flat_map'; auto).
  pose proof (qsum_perm _ _ (Permutation_map snd P)) as E1.
  pose proof (qsum_perm _ _ (Permutation_map (fun p => fst p * snd p) P)) as E2.
  destruct (Qeq_bool (qsum (map snd (weighted area vs))) 0) eqn:B1;
    destruct (Qeq_bool (qsum (map snd (weighted area vs'))) 0) eqn:B2; simpl; auto.
  - apply Qeq_bool_iff in B1. apply Qeq_bool_neq in B2. apply B2. rewrite <- E1. exact B1.
  - apply Qeq_bool_iff in B2. apply Qeq_bool_neq in B1. apply B1. rewrite E1. exact B2.
  - rewrite E1, E2. reflexivity.
Qed.

(* all summary queries of an emulsion are invariant under permutation of its members *)
Theorem stats_perm_invariant (vol area : value -> Q) vs vs' :
  Permutation vs vs' ->
  st_count vs = st_count vs' /\
  st_radius_mean vs == st_radius_mean vs' /\
  st_radius_var vs == st_radius_var vs' /\
  st_volume_mean vol vs == st_volume_mean vol vs' /\
  st_volume_var vol vs == st_volume_var vol vs' /\
  st_total_volume vol vs == st_total_volume vol vs' /\
  oQeq (st_width area vs) (st_width area vs') /\
  (forall k, oQeq (fst (st_bbox k vs)) (fst (st_bbox k vs')) /\ oQeq (snd (st_bbox k vs)) (snd (st_bbox k vs'))).
Proof.
  intros H. repeat split.
  - apply Permutation_length; auto.
  - apply qmean_perm. apply Permutation_map; auto.
  - apply qvariance_perm. apply Permutation_map; auto.
  - apply qmean_perm. apply Permutation_map; auto.
  - apply qvariance_perm. apply Permutation_map; auto.
  - apply qsum_perm. apply Permutation_map; auto.
  - apply st_width_perm; auto.
  - simpl. apply lo_bound_perm. apply Permutation_flat_map'; auto.
  - simpl. apply hi_bound_perm. apply Permutation_flat_map'; auto.
Qed.

(* the bounding box contains every member's own box *)
Lemma lo_bound_le l m x : lo_bound l = Some m -> In x l -> m <= x.
Proof.
  revert m; induction l as [|a l IH]; intros m H Hin; [destruct Hin|].
  rewrite lo_bound_cons in H. destruct (lo_bound l) as [m'|] eqn:E.
  - inversion H; subst. destruct Hin as [->|Hin].
    + apply Q.le_min_l.
    + eapply Qle_trans; [apply Q.le_min_r|]. apply IH; auto.
  - inversion H; subst. destruct Hin as [->|Hin]; [apply Qle_refl|].
    destruct l; [destruct Hin|]. rewrite lo_bound_cons in E. destruct (lo_bound l); discriminate.
Qed.

Lemma hi_bound_ge l m x : hi_bound l = Some m -> In x l -> x <= m.
Proof.
  revert m; induction l as [|a l IH]; intros m H Hin; [destruct Hin|].
  rewrite hi_bound_cons in H. destruct (hi_bound l) as [m'|] eqn:E.
  - inversion H; subst. destruct Hin as [->|Hin].
    + apply Q.le_max_l.
    + eapply Qle_trans; [|apply Q.le_max_r]. apply IH; auto.
  - inversion H; subst. destruct Hin as [->|Hin]; [apply Qle_refl|].
    destruct l; [destruct Hin|]. rewrite hi_bound_cons in E. destruct (hi_bound l); discriminate.
Qed.

Theorem bbox_contains_members k vs v p lo hi :
  In v vs -> nth_error (pos v) k = Some p -> st_bbox k vs = (Some lo, Some hi) ->
  lo <= p - rad v /\ p + rad v <= hi.
Proof.
  intros Hin Hp H. unfold st_bbox in H. inversion H as [[H1 H2]]. split.
  - eapply lo_bound_le; eauto. unfold axis_lows. apply in_flat_map. exists v. rewrite Hp. simpl; auto.
  - eapply hi_bound_ge; eauto. unfold axis_highs. apply in_flat_map. exists v. rewrite Hp. simpl; auto.
Qed.

(* remove_short_tracks: which tracks survive does not depend on their order *)
Theorem short_tracks_perm_invariant q (tss tss' : list (list Q)) :
  Permutation tss tss' -> Permutation (filter (keeps_times q) tss) (filter (keeps_times q) tss').
Proof. apply Permutation_filter'. Qed.

(* nearest-time lookup returns an index whose distance is minimal *)

(* value attained at the returned index, and minimality *)
Fixpoint argmin_val (best : nat * Q) (i : nat) (l : list Q) : Q :=
  match l with
  | [] => snd best
  | x :: r => if Qlt_le_dec x (snd best) then argmin_val (i, x) (S i) r else argmin_val best (S i) r
  end.

Lemma argmin_val_le l : forall b i, argmin_val b i l <= snd b /\ forall x, In x l -> argmin_val b i l <= x.
Proof.
  induction l as [|x l IH]; intros b i; simpl.
  - split; [apply Qle_refl|tauto].
  - destruct (Qlt_le_dec x (snd b)) as [Hlt|Hle].
    + destruct (IH (i, x) (S i)) as [H1 H2]; simpl in *. split.
      * eapply Qle_trans; [exact H1|]. apply Qlt_le_weak; auto.
      * intros y [->|Hy]; auto.
    + destruct (IH b (S i)) as [H1 H2]. split; auto.
      intros y [->|Hy]; auto. eapply Qle_trans; eauto.
Qed.

Lemma argmin_from_val l : forall b i d0,
  (forall n, nth_error (d0 ++ l) (n + length d0) = nth_error l n) ->
  i = length d0 -> (fst b < i)%nat -> nth_error d0 (fst b) = Some (snd b) ->
  nth_error (d0 ++ l) (argmin_from b i l) = Some (argmin_val b i l).
Proof.
  induction l as [|x l IH]; intros b i d0 _ Hi Hb Hn; simpl.
  - rewrite app_nil_r. exact Hn.
  - assert (A : forall n, nth_error ((d0 ++ [x]) ++ l) (n + length (d0 ++ [x])) = nth_error l n).
    { intros n. rewrite nth_error_app2 by lia. f_equal. lia. }
    assert (L : S i = length (d0 ++ [x])) by (rewrite app_length; simpl; lia).
    destruct (Qlt_le_dec x (snd b)).
    + specialize (IH (i, x) (S i) (d0 ++ [x]) A L). simpl in IH.
      rewrite <- app_assoc in IH. simpl in IH. apply IH; [lia|].
      rewrite nth_error_app2 by lia. rewrite Hi, Nat.sub_diag. reflexivity.
    + specialize (IH b (S i) (d0 ++ [x]) A L). rewrite <- app_assoc in IH. simpl in IH.
      apply IH; [lia|]. rewrite nth_error_app1 by lia. exact Hn.
Qed.

Theorem nearest_minimal ts t i :
  nearest ts t = Some i ->
  exists ti, nth_error ts i = Some ti /\ forall tj, In tj ts -> Qabs (ti - t) <= Qabs (tj - t).
Proof.
  unfold nearest. destruct ts as [|t0 ts]; [discriminate|]. cbn [map].
  set (d0 := Qabs (t0 - t)).
  set (ds := map (fun x => Qabs (x - t)) ts).
  intros H. assert (Hi : argmin_from (0%nat, d0) 1%nat ds = i) by congruence. clear H.
  pose proof (argmin_from_val ds (0%nat, d0) 1%nat [d0]) as V.
  assert (A : forall n, nth_error ([d0] ++ ds) (n + length [d0]) = nth_error ds n).
  { intros n. cbn [length]. rewrite Nat.add_1_r. reflexivity. }
  specialize (V A eq_refl). cbn [fst snd] in V. specialize (V ltac:(lia) eq_refl).
  rewrite Hi in V.
  destruct (argmin_val_le ds (0%nat, d0) 1%nat) as [M1 M2]. cbn [snd] in M1.
  change ([d0] ++ ds) with (map (fun x => Qabs (x - t)) (t0 :: ts)) in V.
  rewrite nth_error_map in V.
  destruct (nth_error (t0 :: ts) i) as [ti|] eqn:E; [|discriminate]. cbn [option_map] in V.
  assert (V' : Qabs (ti - t) = argmin_val (0%nat, d0) 1%nat ds) by congruence.
  exists ti. split; auto. intros tj [->|Hj].
  - rewrite V'. exact M1.
  - rewrite V'. apply M2. unfold ds. apply in_map_iff. eauto.
Qed.
