(* C01 -- locating a rendered emulsion returns each droplet once, with exact volume and half-cell centre.
   Radial grids: Proofs/C01Radial.v.  Digital ball geometry: Proofs/Ball*.v.  Components: Proofs/LocateCart.v.
   Cartesian assembly: Proofs/C01Cart.v. *)
From PD Require Export Proofs.C01Radial Proofs.C01Cart.
