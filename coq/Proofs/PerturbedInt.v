(* C13 -- volume2d_exact: the area enclosed by r(phi) = R0 (1 + sum_n a_n sin n phi + b_n cos n phi)
   is  int_0^{2 pi} r^2/2 dphi = pi R0^2 (1 + sum (a_n^2 + b_n^2)/2),  for an ARBITRARY list of modes
   (induction over the amplitude list; trigonometric orthogonality via Coquelicot is_RInt). *)
From Coq Require Import Reals Lra List Lia.
Import ListNotations.
From Coquelicot Require Import Coquelicot.
From PD Require Import Model.Num Model.Perturbed Gen.Gen_perturbed Proofs.PerturbedSeries.
Local Open Scope R_scope.

(* ---- is_RInt helpers specialised to R ---- *)
Lemma RInt_plus2 (f g : R -> R) (a b u v : R) :
  is_RInt f a b u -> is_RInt g a b v -> is_RInt (fun x => f x + g x) a b (u + v).
Proof. intros Hf Hg. exact (is_RInt_plus f g a b u v Hf Hg). Qed.

Lemma RInt_scal2 (f : R -> R) (a b k u : R) :
  is_RInt f a b u -> is_RInt (fun x => k * f x) a b (k * u).
Proof. intros Hf. exact (is_RInt_scal f a b k u Hf). Qed.

Lemma RInt_const2 (a b c : R) : is_RInt (fun _ : R => c) a b ((b - a) * c).
Proof. exact (is_RInt_const a b c). Qed.

Lemma RInt_ext2 (f g : R -> R) (a b u : R) :
  (forall x, f x = g x) -> is_RInt f a b u -> is_RInt g a b u.
Proof. intros H. apply is_RInt_ext. intros x _. apply H. Qed.

Lemma RInt_val (f : R -> R) (a b u v : R) : u = v -> is_RInt f a b u -> is_RInt f a b v.
Proof. intros ->. exact (fun H => H). Qed.

(* ---- frequencies c with sin (2 pi c) = 0, cos (2 pi c) = 1 ---- *)
Definition per (c : R) : Prop := sin (c * (2 * PI)) = 0 /\ cos (c * (2 * PI)) = 1.

Lemma per_INR n : per (INR n).
Proof.
  unfold per. replace (INR n * (2 * PI)) with (0 + 2 * INR n * PI) by ring.
  rewrite sin_period, cos_period, sin_0, cos_0. split; reflexivity.
Qed.

Lemma per_plus p q : per p -> per q -> per (p + q).
Proof.
  intros [Sp Cp] [Sq Cq]. unfold per. rewrite Rmult_plus_distr_r, sin_plus, cos_plus, Sp, Cp, Sq, Cq.
  split; ring.
Qed.

Lemma per_minus p q : per p -> per q -> per (p - q).
Proof.
  intros [Sp Cp] [Sq Cq]. unfold per. rewrite Rmult_minus_distr_r, sin_minus, cos_minus, Sp, Cp, Sq, Cq.
  split; ring.
Qed.

Lemma int_cos_per c : c <> 0 -> per c -> is_RInt (fun x => cos (c * x)) 0 (2 * PI) 0.
Proof.
  intros Hc [Sc _].
  apply (RInt_val _ _ _ (sin (c * (2 * PI)) / c - sin (c * 0) / c)).
  - rewrite Sc, Rmult_0_r, sin_0. field. exact Hc.
  - apply (is_RInt_derive (fun x => sin (c * x) / c) (fun x => cos (c * x))).
    + intros x _. auto_derive; [exact I|]. field. exact Hc.
    + intros x _. apply (ex_derive_continuous (fun x => cos (c * x))). auto_derive. exact I.
Qed.

Lemma int_sin_per c : per c -> is_RInt (fun x => sin (c * x)) 0 (2 * PI) 0.
Proof.
  intros [_ Cc]. destruct (Req_dec c 0) as [Hc|Hc].
  - subst c. apply (RInt_ext2 (fun _ => 0)).
    + intros x. rewrite Rmult_0_l, sin_0. reflexivity.
    + apply (RInt_val _ _ _ ((2 * PI - 0) * 0)); [ring|apply RInt_const2].
  - apply (RInt_val _ _ _ (- cos (c * (2 * PI)) / c - - cos (c * 0) / c)).
    + rewrite Cc, Rmult_0_r, cos_0. field. exact Hc.
    + apply (is_RInt_derive (fun x => - cos (c * x) / c) (fun x => sin (c * x))).
      * intros x _. auto_derive; [exact I|]. field. exact Hc.
      * intros x _. apply (ex_derive_continuous (fun x => sin (c * x))). auto_derive. exact I.
Qed.

(* ---- orthogonality of products ---- *)
Lemma int_ss p q : per p -> per q -> p - q <> 0 -> p + q <> 0 ->
  is_RInt (fun x => sin (p * x) * sin (q * x)) 0 (2 * PI) 0.
Proof.
  intros Pp Pq Hm Hp.
  apply (RInt_ext2 (fun x => / 2 * cos ((p - q) * x) + - / 2 * cos ((p + q) * x))).
  - intros x. rewrite Rmult_minus_distr_r, Rmult_plus_distr_r, cos_minus, cos_plus. field.
  - apply (RInt_val _ _ _ (/ 2 * 0 + - / 2 * 0)); [ring|].
    apply RInt_plus2; apply RInt_scal2; apply int_cos_per;
      [exact Hm|apply per_minus; assumption|exact Hp|apply per_plus; assumption].
Qed.

Lemma int_cc p q : per p -> per q -> p - q <> 0 -> p + q <> 0 ->
  is_RInt (fun x => cos (p * x) * cos (q * x)) 0 (2 * PI) 0.
Proof.
  intros Pp Pq Hm Hp.
  apply (RInt_ext2 (fun x => / 2 * cos ((p - q) * x) + / 2 * cos ((p + q) * x))).
  - intros x. rewrite Rmult_minus_distr_r, Rmult_plus_distr_r, cos_minus, cos_plus. field.
  - apply (RInt_val _ _ _ (/ 2 * 0 + / 2 * 0)); [ring|].
    apply RInt_plus2; apply RInt_scal2; apply int_cos_per;
      [exact Hm|apply per_minus; assumption|exact Hp|apply per_plus; assumption].
Qed.

Lemma int_sc p q : per p -> per q ->
  is_RInt (fun x => sin (p * x) * cos (q * x)) 0 (2 * PI) 0.
Proof.
  intros Pp Pq.
  apply (RInt_ext2 (fun x => / 2 * sin ((p + q) * x) + / 2 * sin ((p - q) * x))).
  - intros x. rewrite Rmult_minus_distr_r, Rmult_plus_distr_r, sin_minus, sin_plus. field.
  - apply (RInt_val _ _ _ (/ 2 * 0 + / 2 * 0)); [ring|].
    apply RInt_plus2; apply RInt_scal2; apply int_sin_per; [apply per_plus|apply per_minus]; assumption.
Qed.

Lemma int_ss_diag p : per p -> p <> 0 ->
  is_RInt (fun x => sin (p * x) * sin (p * x)) 0 (2 * PI) PI.
Proof.
  intros Pp Hp.
  apply (RInt_ext2 (fun x => / 2 + - / 2 * cos ((p + p) * x))).
  - intros x. rewrite Rmult_plus_distr_r, cos_plus.
    pose proof (sin2_cos2 (p * x)) as H. unfold Rsqr in H. nra.
  - apply (RInt_val _ _ _ ((2 * PI - 0) * / 2 + - / 2 * 0)); [field|].
    apply RInt_plus2; [apply RInt_const2|]. apply RInt_scal2. apply int_cos_per; [lra|apply per_plus; assumption].
Qed.

Lemma int_cc_diag p : per p -> p <> 0 ->
  is_RInt (fun x => cos (p * x) * cos (p * x)) 0 (2 * PI) PI.
Proof.
  intros Pp Hp.
  apply (RInt_ext2 (fun x => / 2 + / 2 * cos ((p + p) * x))).
  - intros x. rewrite Rmult_plus_distr_r, cos_plus.
    pose proof (sin2_cos2 (p * x)) as H. unfold Rsqr in H. nra.
  - apply (RInt_val _ _ _ ((2 * PI - 0) * / 2 + / 2 * 0)); [field|].
    apply RInt_plus2; [apply RInt_const2|]. apply RInt_scal2. apply int_cos_per; [lra|apply per_plus; assumption].
Qed.

(* ---- single modes ---- *)
Lemma INR_pos n : (1 <= n)%nat -> 0 < INR n.
Proof. intros H. apply lt_0_INR. lia. Qed.

Lemma INR_diff n m : n <> m -> INR n - INR m <> 0.
Proof. intros H E. apply H. apply INR_eq. lra. Qed.

Lemma int_term n ab : (1 <= n)%nat -> is_RInt (fun phi => term2 phi n ab) 0 (2 * PI) 0.
Proof.
  intros Hn. unfold term2. pose proof (INR_pos n Hn) as Hp.
  apply (RInt_val _ _ _ (fst ab * 0 + snd ab * 0)); [ring|].
  apply RInt_plus2; apply RInt_scal2.
  - apply int_sin_per. apply per_INR.
  - apply int_cos_per; [lra|apply per_INR].
Qed.

Lemma int_term_term n m ab cd : (1 <= n)%nat -> (1 <= m)%nat -> n <> m ->
  is_RInt (fun phi => term2 phi n ab * term2 phi m cd) 0 (2 * PI) 0.
Proof.
  intros Hn Hm Hne. pose proof (INR_pos n Hn) as Pn. pose proof (INR_pos m Hm) as Pm.
  pose proof (INR_diff n m Hne) as Hd. assert (Hs : INR n + INR m <> 0) by lra.
  assert (Hd' : INR m - INR n <> 0) by lra. assert (Hs' : INR m + INR n <> 0) by lra.
  pose proof (per_INR n) as Qn. pose proof (per_INR m) as Qm.
  destruct ab as [a b], cd as [c d]. unfold term2. cbn [fst snd].
  apply (RInt_ext2 (fun x => (a * c) * (sin (INR n * x) * sin (INR m * x))
                            + ((a * d) * (sin (INR n * x) * cos (INR m * x))
                            + ((b * c) * (sin (INR m * x) * cos (INR n * x))
                            + (b * d) * (cos (INR n * x) * cos (INR m * x)))))).
  - intros x. ring.
  - apply (RInt_val _ _ _ ((a * c) * 0 + ((a * d) * 0 + ((b * c) * 0 + (b * d) * 0)))); [ring|].
    pose proof (int_ss _ _ Qn Qm Hd Hs) as H1. pose proof (int_sc _ _ Qn Qm) as H2.
    pose proof (int_sc _ _ Qm Qn) as H3. pose proof (int_cc _ _ Qn Qm Hd Hs) as H4.
    exact (RInt_plus2 _ _ _ _ _ _ (RInt_scal2 _ _ _ (a * c) _ H1)
            (RInt_plus2 _ _ _ _ _ _ (RInt_scal2 _ _ _ (a * d) _ H2)
              (RInt_plus2 _ _ _ _ _ _ (RInt_scal2 _ _ _ (b * c) _ H3) (RInt_scal2 _ _ _ (b * d) _ H4)))).
Qed.

Lemma int_term_sq n ab : (1 <= n)%nat ->
  is_RInt (fun phi => term2 phi n ab * term2 phi n ab) 0 (2 * PI)
          (PI * (fst ab * fst ab + snd ab * snd ab)).
Proof.
  intros Hn. pose proof (INR_pos n Hn) as Pn. pose proof (per_INR n) as Qn.
  destruct ab as [a b]. unfold term2. cbn [fst snd].
  apply (RInt_ext2 (fun x => (a * a) * (sin (INR n * x) * sin (INR n * x))
                            + ((2 * a * b) * (sin (INR n * x) * cos (INR n * x))
                            + (b * b) * (cos (INR n * x) * cos (INR n * x))))).
  - intros x. ring.
  - apply (RInt_val _ _ _ ((a * a) * PI + ((2 * a * b) * 0 + (b * b) * PI))); [ring|].
    assert (Hn0 : INR n <> 0) by lra.
    pose proof (int_ss_diag _ Qn Hn0) as H1. pose proof (int_sc _ _ Qn Qn) as H2.
    pose proof (int_cc_diag _ Qn Hn0) as H3.
    exact (RInt_plus2 _ _ _ _ _ _ (RInt_scal2 _ _ _ (a * a) _ H1)
            (RInt_plus2 _ _ _ _ _ _ (RInt_scal2 _ _ _ (2 * a * b) _ H2) (RInt_scal2 _ _ _ (b * b) _ H3))).
Qed.

(* ---- series ---- *)
Lemma int_series l : forall n, (1 <= n)%nat ->
  is_RInt (fun phi => series2 w_one phi n l) 0 (2 * PI) 0.
Proof.
  induction l as [|ab l IH]; intros n Hn; simpl.
  - apply (RInt_val _ _ _ ((2 * PI - 0) * 0)); [ring|apply RInt_const2].
  - apply (RInt_val _ _ _ (w_one n * 0 + 0)); [ring|].
    apply RInt_plus2; [apply RInt_scal2; apply int_term; exact Hn|apply IH; lia].
Qed.

Lemma int_term_series ab l : forall n m, (1 <= n)%nat -> (n < m)%nat ->
  is_RInt (fun phi => term2 phi n ab * series2 w_one phi m l) 0 (2 * PI) 0.
Proof.
  induction l as [|cd l IH]; intros n m Hn Hnm; simpl.
  - apply (RInt_ext2 (fun _ => 0)); [intros x; ring|].
    apply (RInt_val _ _ _ ((2 * PI - 0) * 0)); [ring|apply RInt_const2].
  - apply (RInt_ext2 (fun x => w_one m * (term2 x n ab * term2 x m cd) + term2 x n ab * series2 w_one x (S m) l)).
    + intros x. ring.
    + apply (RInt_val _ _ _ (w_one m * 0 + 0)); [ring|].
      apply RInt_plus2; [apply RInt_scal2; apply int_term_term; lia|apply IH; lia].
Qed.

Lemma int_series_sq l : forall n, (1 <= n)%nat ->
  is_RInt (fun phi => series2 w_one phi n l * series2 w_one phi n l) 0 (2 * PI) (PI * sumsq l).
Proof.
  induction l as [|ab l IH]; intros n Hn; simpl.
  - apply (RInt_ext2 (fun _ => 0)); [intros x; ring|].
    apply (RInt_val _ _ _ ((2 * PI - 0) * 0)); [ring|apply RInt_const2].
  - apply (RInt_ext2 (fun x => term2 x n ab * term2 x n ab
                              + (2 * (term2 x n ab * series2 w_one x (S n) l)
                              + series2 w_one x (S n) l * series2 w_one x (S n) l))).
    + intros x. unfold w_one. ring.
    + apply (RInt_val _ _ _ (PI * (fst ab * fst ab + snd ab * snd ab) + (2 * 0 + PI * sumsq l))); [ring|].
      apply RInt_plus2; [apply int_term_sq; exact Hn|].
      apply RInt_plus2; [apply RInt_scal2; apply int_term_series; lia|apply IH; lia].
Qed.

(* the area integral of the reference shape *)
Lemma int_area_series radius l :
  is_RInt (fun phi => (radius * (1 + series2 w_one phi 1 l)) ^ 2 / 2) 0 (2 * PI)
          (PI * radius ^ 2 * (1 + sumsq l / 2)).
Proof.
  apply (RInt_ext2 (fun x => (radius ^ 2 / 2) * (1 + (2 * series2 w_one x 1 l
                              + series2 w_one x 1 l * series2 w_one x 1 l)))).
  - intros x. field.
  - apply (RInt_val _ _ _ ((radius ^ 2 / 2) * ((2 * PI - 0) * 1 + (2 * 0 + PI * sumsq l)))); [field|].
    apply RInt_scal2. apply RInt_plus2; [apply RInt_const2|].
    apply RInt_plus2; [apply RInt_scal2; apply int_series; lia|apply int_series_sq; lia].
Qed.

(* volume2d_exact, for the generated functions: the closed form returned by `volume` is the integral
   of R(phi)^2/2 over the full angle, R(phi) being `interface_distance` -- any number of modes *)
Theorem volume2d_exact radius l :
  is_RInt (fun phi => (dist2d radius phi l) ^ 2 / 2) 0 (2 * PI) (vol2d radius l).
Proof.
  rewrite vol2d_closed.
  apply (RInt_ext2 (fun phi => (radius * (1 + series2 w_one phi 1 l)) ^ 2 / 2)).
  - intros phi. rewrite dist2d_series. reflexivity.
  - apply int_area_series.
Qed.

Corollary volume2d_exact_RInt radius l :
  RInt (fun phi => (dist2d radius phi l) ^ 2 / 2) 0 (2 * PI) = vol2d radius l.
Proof. apply is_RInt_unique. apply volume2d_exact. Qed.

(* the property names modes up to degree 4 (8 amplitudes): an instance of the general statement *)
Corollary volume2d_exact_deg4 radius a1 b1 a2 b2 a3 b3 a4 b4 :
  RInt (fun phi => (dist2d radius phi [(a1, b1); (a2, b2); (a3, b3); (a4, b4)]) ^ 2 / 2) 0 (2 * PI)
  = PI * radius ^ 2 * (1 + (a1 * a1 + b1 * b1 + a2 * a2 + b2 * b2 + a3 * a3 + b3 * b3 + a4 * a4 + b4 * b4) / 2).
Proof. rewrite volume2d_exact_RInt, vol2d_closed. unfold sumsq. simpl. field. Qed.
