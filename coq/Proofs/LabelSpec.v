(* The labelling function of Model/Label.v satisfies the specification of scipy.ndimage.label used as
   a premise by C01/C02 (Proofs/LocateCart.v), for every shape and every mask of the right length:
     label_length        : one label per mask entry;
     label_zero_iff      : label 0 exactly off the mask;   label_mask_cells : mask_cells img = the mask cells;
     label_spec          : LabelSpecImg img  (equal labels <-> connected through face-adjacent mask cells);
     label_wf            : wf_img g img      (keys in raster order, every label 1..num_labels occurs);
     label_raster_order  : rgs 0 (label shape mask): every label is at most 1 + the largest label before
                           it in raster order (restricted growth: components are numbered 1, 2, ... in the
                           order in which their first cell is met);
     rgs_occurs, rgs_first_occurrences : what rgs means (no gaps; first occurrences are 1, 2, ..., n).
   Method: `assign` is the assignment list the pass of lab_go ends with; G is its invariant
   (labels positive, below `next`, only mask cells, equal labels <-> connected);
   lab_go_eq: the output of lab_go is the look-up in the final assignment (assignments never change
   because new entries are appended behind the old ones). *)
From Coq Require Import ZArith List Arith Bool Lia.
Import ListNotations.
From PD Require Import Model.Grid Model.MergeLoop Model.Locate Model.Label
  Proofs.Components Proofs.LocateCart Proofs.LabelFlood.

(* ---- restricted growth ---- *)
Fixpoint rgs (m : nat) (l : list nat) : Prop :=
  match l with
  | [] => True
  | x :: t => x <= S m /\ rgs (Nat.max m x) t
  end.

Definition lmax (l : list nat) : nat := fold_right Nat.max 0 l.

Lemma rgs_occurs : forall l m k, rgs m l -> m < k <= Nat.max m (lmax l) -> In k l.
Proof.
  induction l as [|x t IH]; intros m k Hr Hk; cbn [rgs lmax fold_right] in *.
  - lia.
  - destruct Hr as [Hx Hr]. destruct (Nat.eq_dec x k) as [E|Hne]; [left; exact E|].
    right. apply (IH (Nat.max m x) k Hr). fold (lmax t) in Hk. lia.
Qed.

Lemma rgs_app : forall l1 l2 m, rgs m (l1 ++ l2) <-> rgs m l1 /\ rgs (Nat.max m (lmax l1)) l2.
Proof.
  induction l1 as [|x t IH]; intros l2 m; cbn [app rgs lmax fold_right].
  - rewrite Nat.max_0_r. tauto.
  - rewrite IH. fold (lmax t). rewrite Nat.max_assoc. tauto.
Qed.

(* labels with zeros and repeats removed, in order of first occurrence *)
Fixpoint firsts (seen : list nat) (l : list nat) : list nat :=
  match l with
  | [] => []
  | x :: t => if Nat.eqb x 0 || existsb (Nat.eqb x) seen then firsts seen t
              else x :: firsts (x :: seen) t
  end.

Lemma rgs_firsts : forall l m seen, (forall k, In k seen <-> 1 <= k <= m) -> rgs m l ->
  firsts seen l = seq (S m) (Nat.max m (lmax l) - m).
Proof.
  induction l as [|x t IH]; intros m seen Hseen Hr; cbn [rgs firsts lmax fold_right] in *.
  - rewrite Nat.max_0_r, Nat.sub_diag. reflexivity.
  - fold (lmax t). destruct Hr as [Hx Hr].
    destruct (Nat.eqb x 0 || existsb (Nat.eqb x) seen) eqn:E.
    + assert (Hxm : x <= m).
      { apply orb_true_iff in E. destruct E as [E|E]; [apply Nat.eqb_eq in E; lia|].
        apply existsb_exists in E. destruct E as (y & Hy & E). apply Nat.eqb_eq in E. subst y.
        apply Hseen in Hy. lia. }
      replace (Nat.max m x) with m in Hr by lia. rewrite (IH m seen Hseen Hr). f_equal. lia.
    + assert (Hxm : x = S m).
      { apply orb_false_iff in E. destruct E as [E0 E]. apply Nat.eqb_neq in E0.
        destruct (le_lt_dec x m) as [Hle|Hgt]; [|lia]. exfalso.
        assert (Hin : In x seen) by (apply Hseen; lia).
        assert (Hex : existsb (Nat.eqb x) seen = true).
        { apply existsb_exists. exists x. split; [exact Hin|apply Nat.eqb_refl]. }
        congruence. }
      subst x. replace (Nat.max m (S m)) with (S m) in Hr by lia.
      rewrite (IH (S m) (S m :: seen)); [|intros k; cbn [In]; rewrite Hseen; lia|exact Hr].
      replace (Nat.max m (Nat.max (S m) (lmax t)) - m) with (S (Nat.max (S m) (lmax t) - S m)) by lia.
      reflexivity.
Qed.

(* first occurrences of a restricted-growth list: 1, 2, ..., largest label *)
Lemma rgs_first_occurrences l : rgs 0 l -> firsts [] l = seq 1 (lmax l).
Proof.
  intros H. rewrite (rgs_firsts l 0 []); [|intros k; cbn [In]; lia|exact H].
  f_equal. lia.
Qed.

(* ---- look-up in assignment lists ---- *)
Definition posl (asg : limage) : Prop := forall p, In p asg -> snd p <> 0.

Lemma lab_of_app : forall l1 l2 a, posl l1 ->
  lab_of (l1 ++ l2) a = match lab_of l1 a with O => lab_of l2 a | S l => S l end.
Proof.
  induction l1 as [|[c' l'] l1 IH]; intros l2 a Hp; cbn [app lab_of]; [reflexivity|].
  destruct (cell_eqb a c') eqn:E.
  - assert (Hl : l' <> 0) by (apply (Hp (c', l')); left; reflexivity).
    destruct l'; [contradiction|reflexivity].
  - apply IH. intros p Hin. apply Hp. right. exact Hin.
Qed.

Lemma lab_of_const : forall (S : list cell) k a,
  lab_of (map (fun d => (d, k)) S) a = if cell_inb a S then k else 0.
Proof.
  induction S as [|c S IH]; intros k a; cbn [map lab_of]; [reflexivity|].
  unfold cell_inb. cbn [existsb]. fold (cell_inb a S).
  destruct (cell_eqb a c); cbn [orb]; [reflexivity|apply IH].
Qed.

Lemma lab_of_lt : forall l k a, 0 < k -> (forall p, In p l -> snd p < k) -> lab_of l a < k.
Proof.
  induction l as [|[c' l'] l IH]; intros k a Hk Hp; cbn [lab_of]; [exact Hk|].
  destruct (cell_eqb a c').
  - apply (Hp (c', l')). left. reflexivity.
  - apply IH; [exact Hk|]. intros p Hin. apply Hp. right. exact Hin.
Qed.

Lemma posl_step asg (S : list cell) k : posl asg -> k <> 0 -> posl (asg ++ map (fun d => (d, k)) S).
Proof.
  intros Hp Hk p Hin. apply in_app_iff in Hin. destruct Hin as [Hin|Hin]; [apply Hp; exact Hin|].
  apply in_map_iff in Hin. destruct Hin as (d & <- & _). exact Hk.
Qed.

(* ---- the pass over the cells ---- *)
Section Assign.
  Variable mc : list cell.

  Local Notation conn := (conn0 cell mc face_adj).
  Local Notation comp := (component mc).

  (* the assignment list at the end of the pass (same recursion as lab_go) *)
  Fixpoint assign (cs : list cell) (ms : list bool) (next : nat) (asg : limage) : limage :=
    match cs, ms with
    | c :: cs', m :: ms' =>
        if m then
          match lab_of asg c with
          | O => assign cs' ms' (S next) (asg ++ map (fun d => (d, next)) (comp c))
          | S _ => assign cs' ms' next asg
          end
        else assign cs' ms' next asg
    | _, _ => asg
    end.

  Record G (next : nat) (asg : limage) : Prop := {
    g_pos : posl asg;
    g_mc : forall a, lab_of asg a <> 0 -> In a mc;
    g_lt : forall a, lab_of asg a < next;
    g_cls : forall a b, lab_of asg a <> 0 -> (lab_of asg a = lab_of asg b <-> conn a b)
  }.

  Lemma G_init : G 1 [].
  Proof.
    split.
    - intros p [].
    - intros a H. cbn [lab_of] in H. congruence.
    - intros a. cbn [lab_of]. lia.
    - intros a b H. cbn [lab_of] in H. congruence.
  Qed.

  Lemma G_step next asg c : G next asg -> 1 <= next -> In c mc -> lab_of asg c = 0 ->
    G (S next) (asg ++ map (fun d => (d, next)) (comp c)).
  Proof.
    intros HG Hn Hc Hc0.
    assert (Hin : forall a, cell_inb a (comp c) = true <-> conn c a).
    { intros a. rewrite cell_inb_spec. apply (component_spec mc c Hc). }
    assert (Hfresh : forall a, conn c a -> lab_of asg a = 0).
    { intros a Hca. destruct (lab_of asg a) as [|l] eqn:E; [reflexivity|]. exfalso.
      assert (Hne : lab_of asg a <> 0) by lia.
      pose proof (proj2 (g_cls next asg HG a c Hne) (cr_sym _ _ _ Hca)) as E'. lia. }
    assert (Hl : forall a, lab_of (asg ++ map (fun d => (d, next)) (comp c)) a
                           = if cell_inb a (comp c) then next else lab_of asg a).
    { intros a. rewrite (lab_of_app _ _ _ (g_pos next asg HG)), lab_of_const.
      destruct (cell_inb a (comp c)) eqn:E.
      - rewrite (Hfresh a) by (apply Hin; exact E). reflexivity.
      - destruct (lab_of asg a); reflexivity. }
    split.
    - apply posl_step; [apply (g_pos next asg HG)|lia].
    - intros a. rewrite Hl. destruct (cell_inb a (comp c)) eqn:E.
      + intros _. apply (component_in_mc mc c Hc). apply cell_inb_spec. exact E.
      + apply (g_mc next asg HG).
    - intros a. rewrite Hl. pose proof (g_lt next asg HG a). destruct (cell_inb a (comp c)); lia.
    - intros a b. rewrite !Hl.
      pose proof (g_lt next asg HG a) as Hla. pose proof (g_lt next asg HG b) as Hlb.
      destruct (cell_inb a (comp c)) eqn:Ea; destruct (cell_inb b (comp c)) eqn:Eb; intros Hne.
      + apply Hin in Ea. apply Hin in Eb. split; [|reflexivity]. intros _.
        apply cr_trans with c; [apply cr_sym; exact Ea|exact Eb].
      + apply Hin in Ea. split; [lia|]. intros Hab. exfalso.
        assert (Hcb : conn c b) by (apply cr_trans with a; assumption).
        apply Hin in Hcb. congruence.
      + apply Hin in Eb. split; [lia|]. intros Hab. exfalso.
        assert (Hca : conn c a) by (apply cr_trans with b; [exact Eb|apply cr_sym; exact Hab]).
        apply Hin in Hca. congruence.
      + apply (g_cls next asg HG a b Hne).
  Qed.

  Definition mask_ok (cs : list cell) (ms : list bool) : Prop :=
    forall c, In (c, true) (combine cs ms) -> In c mc.

  Lemma mask_ok_tail c cs m ms : mask_ok (c :: cs) (m :: ms) -> mask_ok cs ms.
  Proof. intros H x Hx. apply H. cbn [combine]. right. exact Hx. Qed.

  Lemma mask_ok_head c cs ms : mask_ok (c :: cs) (true :: ms) -> In c mc.
  Proof. intros H. apply H. cbn [combine]. left. reflexivity. Qed.

  Lemma assign_G : forall cs ms next asg, G next asg -> 1 <= next -> mask_ok cs ms ->
    exists next', G next' (assign cs ms next asg).
  Proof.
    induction cs as [|c cs IH]; intros [|m ms] next asg HG Hn Hok; cbn [assign];
      try (exists next; exact HG).
    pose proof (mask_ok_tail _ _ _ _ Hok) as Hok'.
    destruct m; [|apply IH; assumption].
    destruct (lab_of asg c) eqn:E; [|apply IH; assumption].
    apply IH; [|lia|exact Hok'].
    apply G_step; [exact HG|exact Hn|exact (mask_ok_head _ _ _ Hok)|exact E].
  Qed.

  (* assignments never change *)
  Lemma assign_mono : forall cs ms next asg a, posl asg -> 1 <= next -> lab_of asg a <> 0 ->
    lab_of (assign cs ms next asg) a = lab_of asg a.
  Proof.
    induction cs as [|c cs IH]; intros [|m ms] next asg a Hp Hn Ha; cbn [assign]; try reflexivity.
    destruct m; [|apply IH; assumption].
    destruct (lab_of asg c) eqn:E; [|apply IH; assumption].
    assert (E' : lab_of (asg ++ map (fun d => (d, next)) (comp c)) a = lab_of asg a).
    { rewrite (lab_of_app _ _ _ Hp). destruct (lab_of asg a); [congruence|reflexivity]. }
    rewrite IH; [exact E'|apply posl_step; [exact Hp|lia]|lia|rewrite E'; exact Ha].
  Qed.

  (* the label a fresh seed receives *)
  Lemma seed_label asg c next : posl asg -> In c mc -> lab_of asg c = 0 ->
    lab_of (asg ++ map (fun d => (d, next)) (comp c)) c = next.
  Proof.
    intros Hp Hc E. rewrite (lab_of_app _ _ _ Hp), E, lab_of_const.
    replace (cell_inb c (comp c)) with true; [reflexivity|].
    symmetry. apply cell_inb_spec. apply component_refl. exact Hc.
  Qed.

  (* every mask cell met during the pass ends with a non-zero label *)
  Lemma assign_cov : forall cs ms next asg c, posl asg -> 1 <= next -> mask_ok cs ms ->
    In (c, true) (combine cs ms) -> lab_of (assign cs ms next asg) c <> 0.
  Proof.
    induction cs as [|c0 cs IH]; intros [|m ms] next asg c Hp Hn Hok Hin; cbn [combine] in Hin;
      try (destruct Hin; fail).
    pose proof (mask_ok_tail _ _ _ _ Hok) as Hok'. cbn [assign].
    destruct Hin as [E|Hin].
    - injection E as -> ->. pose proof (mask_ok_head _ _ _ Hok) as Hc.
      destruct (lab_of asg c) eqn:E.
      + rewrite assign_mono; [|apply posl_step; [exact Hp|lia]|lia|];
          rewrite (seed_label asg c next Hp Hc E); lia.
      + rewrite assign_mono; [rewrite E; lia|exact Hp|exact Hn|rewrite E; lia].
    - destruct m; [|apply IH; assumption].
      destruct (lab_of asg c0) eqn:E; [|apply IH; assumption].
      apply IH; [apply posl_step; [exact Hp|lia]|lia|exact Hok'|exact Hin].
  Qed.

  (* the output of the pass is the look-up in the final assignment *)
  Lemma lab_go_eq : forall cs ms next asg, posl asg -> 1 <= next -> mask_ok cs ms ->
    lab_go mc cs ms next asg
    = map (fun p : cell * bool => if snd p then lab_of (assign cs ms next asg) (fst p) else 0) (combine cs ms).
  Proof.
    induction cs as [|c cs IH]; intros [|m ms] next asg Hp Hn Hok; cbn [lab_go combine map]; try reflexivity.
    pose proof (mask_ok_tail _ _ _ _ Hok) as Hok'. cbn [snd fst assign].
    destruct m; [|f_equal; apply IH; assumption].
    pose proof (mask_ok_head _ _ _ Hok) as Hc.
    destruct (lab_of asg c) eqn:E.
    - f_equal.
      + rewrite assign_mono; [|apply posl_step; [exact Hp|lia]|lia|];
          rewrite (seed_label asg c next Hp Hc E); [reflexivity|lia].
      + apply IH; [apply posl_step; [exact Hp|lia]|lia|exact Hok'].
    - f_equal.
      + rewrite assign_mono; [rewrite E; reflexivity|exact Hp|exact Hn|rewrite E; lia].
      + apply IH; assumption.
  Qed.

  Lemma lab_go_length : forall cs ms next asg,
    length (lab_go mc cs ms next asg) = Nat.min (@length (list Z) cs) (length ms).
  Proof.
    induction cs as [|c cs IH]; intros [|m ms] next asg; cbn [lab_go length Nat.min]; try reflexivity.
    destruct m; [destruct (lab_of asg c)|]; cbn [length]; rewrite IH; reflexivity.
  Qed.

  Lemma lab_go_rgs : forall cs ms next asg, 1 <= next -> (forall p, In p asg -> snd p < next) ->
    rgs (pred next) (lab_go mc cs ms next asg).
  Proof.
    induction cs as [|c cs IH]; intros [|m ms] next asg Hn Hlt; cbn [lab_go rgs]; try exact I.
    destruct m.
    - pose proof (lab_of_lt asg next c Hn Hlt) as Hc.
      destruct (lab_of asg c) as [|l] eqn:E; cbn [rgs].
      + split; [lia|]. replace (Nat.max (pred next) next) with (pred (S next)) by lia.
        apply IH; [lia|]. intros p Hin. apply in_app_iff in Hin. destruct Hin as [Hin|Hin].
        * pose proof (Hlt p Hin). lia.
        * apply in_map_iff in Hin. destruct Hin as (d & <- & _). cbn [snd]. lia.
      + split; [lia|]. replace (Nat.max (pred next) (S l)) with (pred next) by lia.
        apply IH; assumption.
    - split; [lia|]. rewrite Nat.max_0_r. apply IH; assumption.
  Qed.
End Assign.

(* ---- lists of pairs ---- *)
Lemma map_fst_combine {A B : Type} : forall (l1 : list A) (l2 : list B),
  length l1 = length l2 -> map fst (combine l1 l2) = l1.
Proof.
  induction l1 as [|x l1 IH]; intros [|y l2] H; cbn [length] in H; try discriminate H; [reflexivity|].
  cbn [combine map fst]. f_equal. apply IH. lia.
Qed.

Lemma in_combine_l_ex {A B : Type} : forall (l1 : list A) (l2 : list B) x,
  length l1 = length l2 -> In x l1 -> exists y, In (x, y) (combine l1 l2).
Proof.
  induction l1 as [|a l1 IH]; intros [|b l2] x H Hin; cbn [length] in H; try discriminate H; [destruct Hin|].
  cbn [combine]. destruct Hin as [<-|Hin].
  - exists b. left. reflexivity.
  - destruct (IH l2 x) as [y Hy]; [lia|exact Hin|]. exists y. right. exact Hy.
Qed.

Lemma in_combine_r_ex {A B : Type} : forall (l1 : list A) (l2 : list B) y,
  length l1 = length l2 -> In y l2 -> exists x, In (x, y) (combine l1 l2).
Proof.
  induction l1 as [|a l1 IH]; intros [|b l2] y H Hin; cbn [length] in H; try discriminate H; [destruct Hin|].
  cbn [combine]. destruct Hin as [<-|Hin].
  - exists a. left. reflexivity.
  - destruct (IH l2 y) as [x Hx]; [lia|exact Hin|]. exists x. right. exact Hx.
Qed.

Lemma in_combine_map {A B C : Type} (f : A * B -> C) : forall (l1 : list A) (l2 : list B) x y,
  In (x, y) (combine l1 l2) -> In (x, f (x, y)) (combine l1 (map f (combine l1 l2))).
Proof.
  induction l1 as [|a l1 IH]; intros [|b l2] x y Hin; cbn [combine] in Hin; try (destruct Hin; fail).
  cbn [combine map]. destruct Hin as [E|Hin].
  - injection E as -> ->. left. reflexivity.
  - right. apply IH. exact Hin.
Qed.

Lemma num_labels_combine : forall (cs : list (list Z)) (l : list nat),
  length cs = length l -> num_labels (combine cs l) = lmax l.
Proof.
  unfold num_labels, lmax.
  induction cs as [|c cs IH]; intros [|x l] H; cbn [length] in H; try discriminate H; [reflexivity|].
  cbn [combine fold_right snd]. rewrite IH by lia. reflexivity.
Qed.

Lemma mcells_spec shape mask c :
  In c (mcells shape mask) <-> In (c, true) (combine (all_cells shape) mask).
Proof.
  unfold mcells. rewrite in_map_iff. split.
  - intros ([c' m] & E & Hin). apply filter_In in Hin. destruct Hin as [Hin Hm].
    cbn [fst snd] in *. subst c' m. exact Hin.
  - intros Hin. exists (c, true). split; [reflexivity|]. apply filter_In. split; [exact Hin|reflexivity].
Qed.

(* ---- the theorems ---- *)
(* `cell` and `list Z` are the same type; lia wants them written the same way *)
Ltac clia := unfold cell in *; lia.
Section Label.
  Variable shape : list Z.
  Variable mask : list bool.
  Hypothesis Hlen : length mask = length (all_cells shape).

  Local Notation cs := (all_cells shape).
  Local Notation mc := (mcells shape mask).
  Local Notation asgF := (assign mc cs mask 1 []).
  Local Notation img := (mk_limage shape (label shape mask)).

  Theorem label_length : length (label shape mask) = length mask.
  Proof. unfold label. rewrite lab_go_length. clia. Qed.

  Lemma label_mask_ok : mask_ok mc cs mask.
  Proof. intros c Hin. apply mcells_spec. exact Hin. Qed.

  Lemma label_eq :
    label shape mask = map (fun p : cell * bool => if snd p then lab_of asgF (fst p) else 0) (combine cs mask).
  Proof.
    unfold label. apply lab_go_eq; [intros p []|clia|exact label_mask_ok].
  Qed.

  Lemma img_keys : map fst img = cs.
  Proof. unfold mk_limage. apply map_fst_combine. rewrite label_length. clia. Qed.

  Lemma img_lab c m : In (c, m) (combine cs mask) ->
    lab_of img c = if m then lab_of asgF c else 0.
  Proof.
    intros Hin. apply lab_of_in.
    - rewrite img_keys. apply nodup_all_cells.
    - unfold mk_limage. rewrite label_eq.
      exact (in_combine_map (fun p : cell * bool => if snd p then lab_of asgF (fst p) else 0) cs mask c m Hin).
  Qed.

  Lemma asgF_cov c : In c mc -> lab_of asgF c <> 0.
  Proof.
    intros Hc. apply assign_cov; [intros p []|clia|exact label_mask_ok|]. apply mcells_spec. exact Hc.
  Qed.

  Lemma asgF_G : exists n, G mc n asgF.
  Proof. apply assign_G; [apply G_init|clia|exact label_mask_ok]. Qed.

  (* label 0 exactly off the mask *)
  Theorem label_zero_iff c m : In (c, m) (combine cs mask) -> (lab_of img c = 0 <-> m = false).
  Proof.
    intros Hin. rewrite (img_lab c m Hin). destruct m.
    - split; [|discriminate]. intros E. exfalso. apply (asgF_cov c); [|exact E].
      apply mcells_spec. exact Hin.
    - split; reflexivity.
  Qed.

  (* the same by position in the lists *)
  Theorem label_zero_iff_nth i : i < length mask ->
    (nth i (label shape mask) 0 = 0 <-> nth i mask false = false).
  Proof.
    intros Hi.
    assert (Hin : In (nth i cs [], nth i mask false) (combine cs mask)).
    { rewrite <- (combine_nth cs mask i [] false) by clia. apply nth_In. rewrite combine_length. clia. }
    assert (Hin' : In (nth i cs [], nth i (label shape mask) 0) img).
    { unfold mk_limage. rewrite <- (combine_nth cs (label shape mask) i [] 0) by (rewrite label_length; clia).
      apply nth_In. rewrite combine_length, label_length. clia. }
    set (c := nth i cs []) in *.
    rewrite <- (label_zero_iff c _ Hin).
    rewrite (lab_of_in img) with (l := nth i (label shape mask) 0);
      [reflexivity|rewrite img_keys; apply nodup_all_cells|exact Hin'].
  Qed.

  Lemma in_mask_cells a :
    In a (mask_cells img) <-> In a mc.
  Proof.
    rewrite mask_cells_spec, img_keys. split.
    - intros [Ha Hl]. destruct (in_combine_l_ex cs mask a (eq_sym Hlen) Ha) as [m Hm].
      apply mcells_spec. destruct m; [exact Hm|]. exfalso. apply Hl. apply (label_zero_iff a false Hm). reflexivity.
    - intros Ha. apply mcells_spec in Ha. split; [exact (in_combine_l _ _ _ _ Ha)|].
      intros E. apply (label_zero_iff a true Ha) in E. discriminate E.
  Qed.

  (* the mask cells of the label image are the cells whose mask entry is true *)
  Theorem label_mask_cells a :
    In a (mask_cells img) <-> In (a, true) (combine cs mask).
  Proof. rewrite in_mask_cells. apply mcells_spec. Qed.

  Lemma img_lab_mc a : In a mc -> lab_of img a = lab_of asgF a.
  Proof. intros Ha. apply mcells_spec in Ha. exact (img_lab a true Ha). Qed.

  Lemma box_conn_iff a b : box_conn img a b <-> conn0 cell mc face_adj a b.
  Proof.
    unfold box_conn, conn0. split; apply clos_mono; intros u v (Hu & Hv & Hf);
      (split; [|split; [|exact Hf]]); apply in_mask_cells; assumption.
  Qed.

  (* equal labels <-> connected through face-adjacent mask cells *)
  Theorem label_spec : LabelSpecImg img.
  Proof.
    intros a b Ha Hb. apply in_mask_cells in Ha. apply in_mask_cells in Hb.
    rewrite (img_lab_mc a Ha), (img_lab_mc b Hb), box_conn_iff.
    destruct asgF_G as [n HG]. apply (g_cls mc n asgF HG). apply asgF_cov. exact Ha.
  Qed.

  (* components are numbered in raster order of their first cells *)
  Theorem label_raster_order : rgs 0 (label shape mask).
  Proof. unfold label. apply (lab_go_rgs mc cs mask 1 []); [apply le_n|intros p []]. Qed.

  Theorem label_first_occurrences :
    firsts [] (label shape mask) = seq 1 (num_labels img).
  Proof.
    unfold mk_limage. rewrite num_labels_combine by (rewrite label_length; clia).
    apply rgs_first_occurrences. exact label_raster_order.
  Qed.

  Lemma label_dense k : k < num_labels img -> members img k <> [].
  Proof.
    intros Hk. unfold mk_limage in Hk. rewrite num_labels_combine in Hk by (rewrite label_length; clia).
    assert (Hin : In (S k) (label shape mask)).
    { apply (rgs_occurs _ 0 (S k) label_raster_order). clia. }
    destruct (in_combine_r_ex cs (label shape mask) (S k)) as [c Hc];
      [rewrite label_length; clia|exact Hin|].
    intros E. assert (Hm : In c (members img k)).
    { unfold members. apply in_map_iff. exists (c, S k). split; [reflexivity|].
      apply filter_In. split; [exact Hc|]. cbn [snd]. apply Nat.eqb_refl. }
    rewrite E in Hm. destruct Hm.
  Qed.
End Label.

(* the label image is well formed for the grid (no condition on the grid) *)
Theorem label_wf g mask : length mask = length (all_cells (gshape g)) ->
  wf_img g (mk_limage (gshape g) (label (gshape g) mask)).
Proof.
  intros Hlen. split.
  - apply img_keys. exact Hlen.
  - apply label_dense. exact Hlen.
Qed.

(* ---- examples (checked against scipy.ndimage.label) ---- *)
Definition bits (l : list nat) : list bool := map (fun n => negb (Nat.eqb n 0)) l.

(* 4 x 5, three components, the second one not convex *)
Example label_example_2d :
  label [4; 5]%Z (bits [0; 1; 0; 1; 1;
                        1; 1; 0; 0; 1;
                        0; 0; 1; 0; 1;
                        1; 0; 1; 1; 1])
  = [0; 1; 0; 2; 2;
     1; 1; 0; 0; 2;
     0; 0; 2; 0; 2;
     3; 0; 2; 2; 2].
Proof. vm_compute. reflexivity. Qed.

(* 3 x 2 x 3 *)
Example label_example_3d :
  label [3; 2; 3]%Z (bits [1; 0; 1;  0; 0; 1;   0; 0; 0;  1; 0; 1;   1; 1; 0;  1; 0; 0])
  = [1; 0; 2;  0; 0; 2;   0; 0; 0;  3; 0; 2;   3; 3; 0;  3; 0; 0].
Proof. vm_compute. reflexivity. Qed.

Print Assumptions label_length.
Print Assumptions label_zero_iff.
Print Assumptions label_zero_iff_nth.
Print Assumptions label_mask_cells.
Print Assumptions label_spec.
Print Assumptions label_wf.
Print Assumptions label_raster_order.
Print Assumptions label_first_occurrences.
Print Assumptions rgs_occurs.
