(* C12, floating-point layer: standard model of rounded arithmetic over the SAME expression trees as the source
   (Gen/Gen_spherical_fp.v).  Part 1: generic error calculus. *)
From Coq Require Import Reals Lra Lia.
From Coquelicot Require Import Coquelicot.
From Interval Require Import Tactic.
From PD Require Import Model.Num Model.Defined Gen.Gen_spherical Gen.Gen_spherical_fp Proofs.C12.
Local Open Scope R_scope.

(* largest unit roundoff covered: 2^-52 *)
Definition U0 : R := 1 / 4503599627370496.

Lemma exp_m1_bound t T : Rabs t <= T -> T < 1 -> Rabs (exp t - 1) <= T / (1 - T).
Proof.
  intros Ht HT. apply Rabs_le_between in Ht. destruct Ht as [Ht1 Ht2].
  assert (HT0 : 0 <= T) by lra.
  pose proof (exp_ineq1_le t) as H1. pose proof (exp_ineq1_le (- t)) as H2.
  pose proof (exp_pos t) as Hp. rewrite exp_Ropp in H2.
  assert (Hq : T / (1 - T) = T * / (1 - T)) by reflexivity.
  assert (Hinv : 0 < / (1 - T)) by (apply Rinv_0_lt_compat; lra).
  assert (HTq : T <= T / (1 - T)).
  { rewrite Hq. assert (1 <= / (1 - T)).
    { rewrite <- Rinv_1 at 1. apply Rinv_le_contravar; lra. } nra. }
  apply Rabs_le_between. split; [lra|].
  (* exp t <= / (1 - t) *)
  assert (He : exp t <= / (1 - t)).
  { rewrite <- (Rinv_inv (exp t)). apply Rinv_le_contravar; lra. }
  assert (Hm : / (1 - t) <= / (1 - T)) by (apply Rinv_le_contravar; lra).
  assert (Hx : / (1 - T) - 1 = T / (1 - T)) by (field; lra).
  lra.
Qed.

Lemma ln_1p_bound d t : Rabs d <= t -> t < 1 -> Rabs (ln (1 + d)) <= t / (1 - t).
Proof.
  intros Hd Ht. apply Rabs_le_between in Hd. destruct Hd as [Hd1 Hd2].
  assert (Hp : 0 < 1 + d) by lra.
  pose proof (exp_ineq1_le (ln (1 + d))) as H1. rewrite exp_ln in H1 by exact Hp.
  pose proof (exp_ineq1_le (- ln (1 + d))) as H2. rewrite exp_Ropp, exp_ln in H2 by exact Hp.
  assert (Hinv : 0 < / (1 - t)) by (apply Rinv_0_lt_compat; lra).
  assert (Hx : / (1 - t) - 1 = t / (1 - t)) by (field; lra).
  assert (Hm : / (1 + d) <= / (1 - t)) by (apply Rinv_le_contravar; lra).
  assert (HTq : t <= t / (1 - t)).
  { unfold Rdiv. assert (1 <= / (1 - t)).
    { rewrite <- Rinv_1 at 1. apply Rinv_le_contravar; lra. } nra. }
  apply Rabs_le_between. split; lra.
Qed.

Section StdModel.
Variables (u kp : R) (rnd rnd_pow : R -> R).
Hypothesis Hu0 : 0 <= u.
Hypothesis Hu : u <= U0.
Hypothesis Hkp0 : 0 <= kp.
Hypothesis Hkp : kp <= 8.
Hypothesis Hrnd : forall x, Rabs (rnd x - x) <= u * Rabs x.
Hypothesis Hpow : forall x, Rabs (rnd_pow x - x) <= kp * u * Rabs x.

(* y approximates x with relative error at most a * u *)
Definition approx (a x y : R) : Prop := 0 <= a /\ exists d, Rabs d <= a * u /\ y = x * (1 + d).

Lemma U0_pos : 0 < U0. Proof. unfold U0. lra. Qed.

Lemma rel_delta (k : R) (f : R -> R) :
  (forall x, Rabs (f x - x) <= k * u * Rabs x) -> 0 <= k ->
  forall x, exists d, Rabs d <= k * u /\ f x = x * (1 + d).
Proof.
  intros Hf Hk x. destruct (Req_dec x 0) as [->|Hx].
  - specialize (Hf 0). rewrite Rabs_R0, Rmult_0_r in Hf.
    assert (f 0 = 0).
    { pose proof (Rabs_pos (f 0 - 0)). apply Rminus_diag_uniq. apply Rabs_eq_0. lra. }
    exists 0. rewrite Rabs_R0. split; [nra|lra].
  - exists ((f x - x) / x). split; [|field; exact Hx].
    unfold Rdiv. rewrite Rabs_mult, Rabs_inv.
    assert (Hax : 0 < Rabs x) by (apply Rabs_pos_lt; exact Hx).
    apply Rmult_le_reg_r with (Rabs x); [exact Hax|].
    rewrite Rmult_assoc, Rinv_l by lra. specialize (Hf x). lra.
Qed.

Lemma approx_abs a x y : approx a x y -> Rabs (y - x) <= a * u * Rabs x.
Proof.
  intros [Ha [d [Hd ->]]]. replace (x * (1 + d) - x) with (x * d) by ring.
  rewrite Rabs_mult. pose proof (Rabs_pos x). nra.
Qed.

Lemma approx_exact x : approx 0 x x.
Proof. split; [lra|]. exists 0. rewrite Rabs_R0. split; [lra|ring]. Qed.

Lemma approx_weaken a b x y : approx a x y -> a <= b -> approx b x y.
Proof. intros [Ha [d [Hd E]]] Hab. split; [lra|]. exists d. split; [nra|exact E]. Qed.

Definition K_rnd (a : R) : R := a + 1 + a * U0.
Definition K_pw (a : R) : R := a + kp + a * kp * U0.
Definition K_mul (a b : R) : R := a + b + a * b * U0.
Definition K_div (a b : R) : R := (a + b) / (1 - b * U0).
Definition K_sqrt (a : R) : R := a / (2 - a * U0).
Definition K_cbrt (a b M : R) : R :=
  let T := (b * M + (1 + b * U0) * (a / (1 - a * U0))) / 3 in T / (1 - T * U0).

Lemma approx_compose (k a : R) (f : R -> R) x y :
  (forall z, Rabs (f z - z) <= k * u * Rabs z) -> 0 <= k ->
  approx a x y -> approx (a + k + a * k * U0) x (f y).
Proof.
  intros Hf Hk [Ha [d [Hd ->]]]. destruct (rel_delta k f Hf Hk (x * (1 + d))) as [e [He ->]].
  split; [pose proof U0_pos; assert (0 <= a * k) by nra; assert (0 <= a * k * U0) by nra; lra|].
  exists (d + e + d * e). split; [|ring].
  apply Rabs_le_between in Hd. apply Rabs_le_between in He. apply Rabs_le_between.
  assert (0 <= a * u) by lra. assert (0 <= k * u) by lra.
  assert (0 <= a * u * k) by (apply Rmult_le_pos; lra).
  assert (0 <= a * u * k * (U0 - u)) by (apply Rmult_le_pos; lra).
  assert (a * u * (k * u) <= a * k * U0 * u) by lra.
  split; nra.
Qed.

Lemma approx_rnd a x y : approx a x y -> approx (K_rnd a) x (rnd y).
Proof.
  intros H. unfold K_rnd. replace (a + 1 + a * U0) with (a + 1 + a * 1 * U0) by ring.
  apply approx_compose; [|lra|exact H]. intros z. rewrite Rmult_1_l. apply Hrnd.
Qed.

Lemma approx_pw a x y : approx a x y -> approx (K_pw a) x (rnd_pow y).
Proof. intros H. unfold K_pw. apply approx_compose; [exact Hpow|exact Hkp0|exact H]. Qed.

Lemma approx_rnd_exact x : approx 1 x (rnd x).
Proof.
  pose proof (approx_rnd 0 x x (approx_exact x)) as H. unfold K_rnd in H.
  eapply approx_weaken; [exact H|lra].
Qed.

Lemma approx_mul a b x1 y1 x2 y2 :
  approx a x1 y1 -> approx b x2 y2 -> approx (K_mul a b) (x1 * x2) (y1 * y2).
Proof.
  intros [Ha [d [Hd ->]]] [Hb [e [He ->]]]. pose proof U0_pos. split; [unfold K_mul; assert (0 <= a * b) by nra; assert (0 <= a * b * U0) by nra; lra|].
  exists (d + e + d * e). split; [|ring].
  apply Rabs_le_between in Hd. apply Rabs_le_between in He. apply Rabs_le_between. unfold K_mul.
  assert (0 <= a * u) by lra. assert (0 <= b * u) by lra.
  assert (0 <= a * u * b) by (apply Rmult_le_pos; lra).
  assert (0 <= a * u * b * (U0 - u)) by (apply Rmult_le_pos; lra).
  assert (a * u * (b * u) <= a * b * U0 * u) by lra.
  split; nra.
Qed.

Lemma approx_div a b x1 y1 x2 y2 :
  approx a x1 y1 -> approx b x2 y2 -> b * U0 < 1 -> approx (K_div a b) (x1 / x2) (y1 / y2).
Proof.
  intros [Ha [d [Hd ->]]] [Hb [e [He ->]]] Hb1. pose proof U0_pos as HU.
  assert (Hbu : b * u <= b * U0) by nra.
  assert (Hinv : 0 < / (1 - b * U0)) by (apply Rinv_0_lt_compat; lra).
  split; [unfold K_div, Rdiv; nra|].
  apply Rabs_le_between in Hd. apply Rabs_le_between in He.
  assert (He1 : 0 < 1 + e) by lra.
  exists ((d - e) / (1 + e)). split.
  - unfold K_div. apply Rabs_le_between.
    assert (Hie : 0 < / (1 + e)) by (apply Rinv_0_lt_compat; lra).
    assert (Hle : / (1 + e) <= / (1 - b * U0)) by (apply Rinv_le_contravar; lra).
    unfold Rdiv.
    assert (H1 : - ((a + b) * u) <= d - e <= (a + b) * u) by lra.
    assert (H0 : 0 <= (a + b) * u) by nra.
    assert (H2 : (a + b) * u * / (1 + e) <= (a + b) * u * / (1 - b * U0)) by (apply Rmult_le_compat_l; lra).
    assert (H3 : (d - e) * / (1 + e) <= (a + b) * u * / (1 + e)) by (apply Rmult_le_compat_r; lra).
    assert (H4 : - ((a + b) * u) * / (1 + e) <= (d - e) * / (1 + e)) by (apply Rmult_le_compat_r; lra).
    split; lra.
  - unfold Rdiv. rewrite Rinv_mult. generalize (/ x2). intros ix. field. lra.
Qed.

Lemma approx_sqrt a x y : approx a x y -> 0 <= x -> a * U0 <= 1 -> approx (K_sqrt a) (sqrt x) (sqrt y).
Proof.
  intros [Ha [d [Hd ->]]] Hx Ha1. pose proof U0_pos as HU.
  assert (Hau : a * u <= a * U0) by nra.
  assert (Hinv : 0 < / (2 - a * U0)) by (apply Rinv_0_lt_compat; lra).
  split; [unfold K_sqrt, Rdiv; nra|].
  apply Rabs_le_between in Hd.
  assert (Hd1 : 0 <= 1 + d) by lra.
  rewrite sqrt_mult by assumption.
  exists (sqrt (1 + d) - 1). split; [|ring].
  pose proof (sqrt_pos (1 + d)) as Hs0. pose proof (sqrt_sqrt (1 + d) Hd1) as Hss.
  set (s := sqrt (1 + d)) in *. set (t := a * u) in *.
  assert (Ht0 : 0 <= t) by lra.
  assert (Hs1 : 1 - t <= s) by nra.
  (* |s - 1| * (2 - t) <= t *)
  assert (Hup : (s - 1) * (2 - t) <= t) by nra.
  assert (Hlo : - t <= (s - 1) * (2 - t)) by nra.
  assert (Hit : 0 < / (2 - t)) by (apply Rinv_0_lt_compat; lra).
  assert (Hle : / (2 - t) <= / (2 - a * U0)) by (apply Rinv_le_contravar; lra).
  assert (E : s - 1 = (s - 1) * (2 - t) * / (2 - t)) by (field; lra).
  unfold K_sqrt, Rdiv. apply Rabs_le_between.
  assert (Hb : t * / (2 - t) <= a * / (2 - a * U0) * u).
  { replace (a * / (2 - a * U0) * u) with (t * / (2 - a * U0)) by (unfold t; ring). nra. }
  split.
  - rewrite E. assert (- (t * / (2 - t)) <= (s - 1) * (2 - t) * / (2 - t)) by nra. lra.
  - rewrite E. assert ((s - 1) * (2 - t) * / (2 - t) <= t * / (2 - t)) by nra. lra.
Qed.

Lemma approx_cube a x y : approx a x y -> approx (K_mul a (K_mul a a)) (x ^ 3) (y ^ 3).
Proof.
  intros H. replace (x ^ 3) with (x * (x * x)) by ring. replace (y ^ 3) with (y * (y * y)) by ring.
  apply approx_mul; [exact H|apply approx_mul; exact H].
Qed.

(* cube root through pow with a rounded exponent: p approximates 1/3, M bounds |ln x| *)
Lemma approx_cbrt a b M x y p :
  approx a x y -> approx b (1 / 3) p -> 0 < x -> Rabs (ln x) <= M ->
  a * U0 <= 1 / 2 ->
  ((b * M + (1 + b * U0) * (a / (1 - a * U0))) / 3) * U0 < 1 ->
  approx (K_cbrt a b M) (pow_nn x (1 / 3)) (pow_nn y p).
Proof.
  intros [Ha [d [Hd ->]]] [Hb [e [He ->]]] Hx HM Ha1 HT1. pose proof U0_pos as HU.
  assert (HM0 : 0 <= M) by (pose proof (Rabs_pos (ln x)); lra).
  set (A := a / (1 - a * U0)) in *. set (T := (b * M + (1 + b * U0) * A) / 3) in *.
  assert (Hau : a * u <= a * U0) by nra.
  assert (HiA : 0 < / (1 - a * U0)) by (apply Rinv_0_lt_compat; lra).
  assert (HA0 : 0 <= A) by (unfold A, Rdiv; nra).
  assert (HT0 : 0 <= T).
  { unfold T. assert (0 <= b * M) by (apply Rmult_le_pos; lra).
    assert (0 <= b * U0) by (apply Rmult_le_pos; lra).
    assert (0 <= (1 + b * U0) * A) by (apply Rmult_le_pos; lra). lra. }
  assert (HiT : 0 < / (1 - T * U0)) by (apply Rinv_0_lt_compat; lra).
  split; [unfold K_cbrt; fold A; fold T; unfold Rdiv; nra|].
  pose proof Hd as Hd'. apply Rabs_le_between in Hd'.
  assert (Hd1 : 0 < 1 + d) by lra.
  assert (Hy : 0 < x * (1 + d)) by nra.
  rewrite (pow_nn_pos _ _ Hx), (pow_nn_pos _ _ Hy). unfold Rpower.
  rewrite ln_mult by assumption.
  set (t := 1 / 3 * (1 + e) * (ln x + ln (1 + d)) - 1 / 3 * ln x).
  exists (exp t - 1). split.
  2:{ replace (exp (1 / 3 * ln x) * (1 + (exp t - 1))) with (exp (1 / 3 * ln x) * exp t) by ring.
      rewrite <- exp_plus. f_equal. unfold t. ring. }
  (* |ln (1 + d)| <= a u / (1 - a u) <= A u *)
  assert (Hau1 : a * u < 1) by lra.
  pose proof (ln_1p_bound d (a * u) Hd Hau1) as Hl.
  assert (HlA : a * u / (1 - a * u) <= A * u).
  { unfold A, Rdiv. assert (/ (1 - a * u) <= / (1 - a * U0)) by (apply Rinv_le_contravar; lra).
    assert (0 <= a * u) by nra. nra. }
  assert (Hl' : Rabs (ln (1 + d)) <= A * u) by lra.
  assert (Ht : Rabs t <= T * u).
  { replace t with (1 / 3 * (e * ln x + (1 + e) * ln (1 + d))) by (unfold t; ring).
    rewrite Rabs_mult. rewrite (Rabs_pos_eq (1 / 3)) by lra.
    assert (Rabs (e * ln x + (1 + e) * ln (1 + d)) <= b * u * M + (1 + b * U0) * (A * u)).
    { eapply Rle_trans; [apply Rabs_triang|]. rewrite !Rabs_mult.
      assert (Rabs (1 + e) <= 1 + b * U0).
      { apply Rabs_le_between in He. apply Rabs_le_between. nra. }
      pose proof (Rabs_pos e). pose proof (Rabs_pos (ln x)). pose proof (Rabs_pos (1 + e)).
      pose proof (Rabs_pos (ln (1 + d))).
      assert (Rabs e * Rabs (ln x) <= b * u * M) by nra.
      assert (Rabs (1 + e) * Rabs (ln (1 + d)) <= (1 + b * U0) * (A * u)) by nra.
      lra. }
    unfold T. nra. }
  assert (HTu : T * u < 1) by nra.
  pose proof (exp_m1_bound t (T * u) Ht HTu) as Hexp.
  eapply Rle_trans; [exact Hexp|].
  unfold K_cbrt. fold A. fold T. unfold Rdiv.
  assert (/ (1 - T * u) <= / (1 - T * U0)) by (apply Rinv_le_contravar; nra).
  assert (0 <= T * u) by nra. nra.
Qed.

Lemma cbrt_side a b M : 0 <= a <= 100 -> 0 <= b <= 2 -> 0 <= M <= 2200 ->
  a * U0 <= 1 / 2 /\ ((b * M + (1 + b * U0) * (a / (1 - a * U0))) / 3) * U0 < 1.
Proof.
  intros [Ha0 Ha1] [Hb0 Hb1] [HM0 HM1]. unfold U0.
  assert (H1 : a * (1 / 4503599627370496) <= 1 / 2) by lra. split; [exact H1|].
  set (A := a / (1 - a * (1 / 4503599627370496))).
  assert (HA : 0 <= A <= 200).
  { assert (Hi : 0 < / (1 - a * (1 / 4503599627370496))) by (apply Rinv_0_lt_compat; lra).
    assert (Hi2 : / (1 - a * (1 / 4503599627370496)) <= 2).
    { replace 2 with (/ (1 / 2)) by field. apply Rinv_le_contravar; lra. }
    unfold A, Rdiv. split; nra. }
  assert (HbM : 0 <= b * M <= 4400) by nra.
  assert (HbA : 0 <= (1 + b * (1 / 4503599627370496)) * A <= 201) by nra.
  lra.
Qed.

Lemma approx_cbrt' a b M x y p :
  approx a x y -> approx b (1 / 3) p -> 0 < x -> Rabs (ln x) <= M ->
  0 <= a <= 100 -> 0 <= b <= 2 -> 0 <= M <= 2200 ->
  approx (K_cbrt a b M) (pow_nn x (1 / 3)) (pow_nn y p).
Proof.
  intros H1 H2 Hx HM Ha Hb HM'. destruct (cbrt_side a b M Ha Hb HM') as [S1 S2].
  apply approx_cbrt; assumption.
Qed.

(* ---------------------------------------------------------------------------------------------------------
   Part 2: the generated floating-point conversions (Gen_spherical_fp) against the generated exact ones.
   The derivation is directed by the shape of the generated floating-point term (one lemma per node); the
   exact term has the same shape because both are generated from the same source tree.
   --------------------------------------------------------------------------------------------------------- *)
Ltac ap_step :=
  lazymatch goal with
  | |- approx _ ?x ?x => apply approx_exact
  | H : approx _ ?x ?y |- approx _ ?x ?y => exact H
  | |- approx _ ?x (rnd ?x) => apply approx_rnd_exact
  | |- approx _ _ (rnd (_ * _)) => eapply approx_rnd; eapply approx_mul
  | |- approx _ _ (rnd (_ / _)) => eapply approx_rnd; eapply approx_div
  | |- approx _ _ (rnd (sqrt _)) => eapply approx_rnd; eapply approx_sqrt
  | |- approx _ _ (rnd_pow (_ ^ 3)) => eapply approx_pw; eapply approx_cube
  end.
Ltac sq_as_mul := rewrite <- ?Rsqr_pow2; unfold Rsqr.
Ltac unfK := unfold K_cbrt, K_rnd, K_pw, K_mul, K_div, K_sqrt, U0.
Ltac num := unfK; lra.
Ltac side :=
  lazymatch goal with
  | |- 0 <= _ => def_nonneg
  | |- 0 < _ => def_pos
  | |- Rabs (ln _) <= _ => idtac
  | |- _ => num
  end.
Ltac ap_run := sq_as_mul; repeat ap_step; side.
Ltac unfG := unfold vfr_scalar_1, vfr_scalar_2, vfr_scalar_3, rfv_scalar_1, rfv_scalar_2, rfv_scalar_3,
  sfr_scalar_1, sfr_scalar_2, sfr_scalar_3, rfs_scalar_2, rfs_scalar_3,
  vfr_fp_1, vfr_fp_2, vfr_fp_3, rfv_fp_1, rfv_fp_2, rfv_fp_3, sfr_fp_1, sfr_fp_2, sfr_fp_3, rfs_fp_2, rfs_fp_3.
Tactic Notation "conv" := eapply approx_weaken; [unfG; ap_run | num].

Notation E := (1 / 1000) (only parsing).

(* ---- single conversions (exact argument) ---- *)
Lemma c_vfr_1 r : approx 1 (vfr_scalar_1 r) (vfr_fp_1 rnd rnd_pow r). Proof. conv. Qed.
Lemma c_vfr_2 r : approx (3 + E) (vfr_scalar_2 r) (vfr_fp_2 rnd rnd_pow r). Proof. conv. Qed.
Lemma c_vfr_3 r : approx (4 + kp + E) (vfr_scalar_3 r) (vfr_fp_3 rnd rnd_pow r). Proof. conv. Qed.
Lemma c_rfv_1 v : approx 1 (rfv_scalar_1 v) (rfv_fp_1 rnd rnd_pow v). Proof. conv. Qed.
Lemma c_rfv_2 v : 0 <= v -> approx (2 + E) (rfv_scalar_2 v) (rfv_fp_2 rnd rnd_pow v). Proof. intros Hv. conv. Qed.
Lemma c_sfr_1 r : approx 0 (sfr_scalar_1 r) (sfr_fp_1 rnd rnd_pow r). Proof. conv. Qed.
Lemma c_sfr_2 r : approx (3 + E) (sfr_scalar_2 r) (sfr_fp_2 rnd rnd_pow r). Proof. conv. Qed.
Lemma c_sfr_3 r : approx (4 + E) (sfr_scalar_3 r) (sfr_fp_3 rnd rnd_pow r). Proof. conv. Qed.
Lemma c_rfs_2 s : approx (3 + E) (rfs_scalar_2 s) (rfs_fp_2 rnd rnd_pow s). Proof. conv. Qed.
Lemma c_rfs_3 s : 0 <= s -> approx (5 / 2 + E) (rfs_scalar_3 s) (rfs_fp_3 rnd rnd_pow s). Proof. intros Hs. conv. Qed.

(* ---- statements that involve the cube root ---- *)
(* L bounds |ln| of the exact radius where a cube root is taken through pow with the rounded exponent 1/3 *)
Variable L : R.
Hypothesis HL0 : 0 <= L.
Hypothesis HL : L <= 710.

(* constants of the three statements that involve the cube root (functions of kp and L) *)
(* the argument of the cube root carries 4 u (single conversion) resp. (8 + kp) u (after volume_from_radius) *)
Definition K_rfv3 : R := K_pw (K_cbrt (4 + 1 / 1000) 1 (3 * L)).
Definition K_vfr3 : R := K_rnd (K_mul (K_rnd (K_mul 1 1)) (K_pw (K_mul 0 (K_mul 0 0)))).
Definition K_rv3 : R := K_pw (K_cbrt (8 + kp + 1 / 100) 1 (3 * L)).
Definition K_vr3 : R := K_rnd (K_mul (K_rnd (K_mul 1 1)) (K_pw (K_mul K_rfv3 (K_mul K_rfv3 K_rfv3)))).


Ltac unfK3 := unfold K_vr3, K_rv3, K_rfv3, K_vfr3; unfK.
Ltac num3 := unfK3; lra.
Ltac ap_step3 c :=
  lazymatch goal with
  | |- approx _ _ (rnd_pow (pow_nn _ _)) =>
      eapply approx_pw; eapply (approx_cbrt' c _ (3 * L)); [eapply approx_weaken | | | | | | ]
  | |- _ => ap_step
  end.
Ltac side3 :=
  lazymatch goal with
  | |- _ <= _ <= _ => unfK3; lra
  | |- 0 <= _ => def_nonneg
  | |- 0 < _ => def_pos
  | |- Rabs (ln _) <= _ => idtac
  | |- _ => num3
  end.
Ltac ap_run3 c := sq_as_mul; repeat (ap_step3 c); side3.

(* cube root: radius_from_volume in 3 dimensions is pow(x, fl(1/3)); the rounded exponent alone contributes
   |ln x| / 3 * u = |ln (exact radius)| * u, so the constant grows with L *)

Lemma ln_rfv3 v : 0 < v -> ln (rfv_scalar_3 v) = ln ((3 * v) / (4 * PI)) / 3.
Proof.
  intros Hv. unfold rfv_scalar_3. rewrite pow_nn_pos by def_pos. unfold Rpower. rewrite ln_exp. field.
Qed.

Ltac ln_from H := apply Rabs_le_between in H; apply Rabs_le_between; lra.

Lemma c_rfv_3 v : 0 < v -> Rabs (ln (rfv_scalar_3 v)) <= L ->
  approx K_rfv3 (rfv_scalar_3 v) (rfv_fp_3 rnd rnd_pow v).
Proof.
  intros Hv Hl. rewrite (ln_rfv3 v Hv) in Hl. unfG. ap_run3 (4 + 1 / 1000). ln_from Hl.
Qed.

(* ---- round trips: the inner conversion by its lemma (a literal constant), the outer one on an approximate argument ---- *)
Tactic Notation "two_stage" constr(A) constr(x) constr(y) :=
  pose proof A as HA; set (X := x) in *; set (Y := y) in *; clearbody Y; conv.

Lemma rt_rv_1 r : approx (2 + 1 / 100) (rfv_scalar_1 (vfr_scalar_1 r)) (rfv_fp_1 rnd rnd_pow (vfr_fp_1 rnd rnd_pow r)).
Proof. two_stage (c_vfr_1 r) (vfr_scalar_1 r) (vfr_fp_1 rnd rnd_pow r). Qed.
Lemma rt_rv_2 r : 0 <= r -> approx (7 / 2 + 1 / 100) (rfv_scalar_2 (vfr_scalar_2 r)) (rfv_fp_2 rnd rnd_pow (vfr_fp_2 rnd rnd_pow r)).
Proof.
  intros Hr. assert (Hx : 0 <= vfr_scalar_2 r) by (unfold vfr_scalar_2; def_nonneg).
  two_stage (c_vfr_2 r) (vfr_scalar_2 r) (vfr_fp_2 rnd rnd_pow r).
Qed.
Lemma rt_vr_1 v : approx (2 + 1 / 100) (vfr_scalar_1 (rfv_scalar_1 v)) (vfr_fp_1 rnd rnd_pow (rfv_fp_1 rnd rnd_pow v)).
Proof. two_stage (c_rfv_1 v) (rfv_scalar_1 v) (rfv_fp_1 rnd rnd_pow v). Qed.
Lemma rt_vr_2 v : 0 <= v ->
  approx (7 + 1 / 100) (vfr_scalar_2 (rfv_scalar_2 v)) (vfr_fp_2 rnd rnd_pow (rfv_fp_2 rnd rnd_pow v)).
Proof. intros Hv. two_stage (c_rfv_2 v Hv) (rfv_scalar_2 v) (rfv_fp_2 rnd rnd_pow v). Qed.
Lemma rt_rs_2 r : approx (6 + 1 / 100) (rfs_scalar_2 (sfr_scalar_2 r)) (rfs_fp_2 rnd rnd_pow (sfr_fp_2 rnd rnd_pow r)).
Proof. two_stage (c_sfr_2 r) (sfr_scalar_2 r) (sfr_fp_2 rnd rnd_pow r). Qed.
Lemma rt_rs_3 r : 0 <= r -> approx (9 / 2 + 1 / 100) (rfs_scalar_3 (sfr_scalar_3 r)) (rfs_fp_3 rnd rnd_pow (sfr_fp_3 rnd rnd_pow r)).
Proof.
  intros Hr. assert (Hx : 0 <= sfr_scalar_3 r) by (unfold sfr_scalar_3; def_nonneg).
  two_stage (c_sfr_3 r) (sfr_scalar_3 r) (sfr_fp_3 rnd rnd_pow r).
Qed.
Lemma rt_sr_2 s : approx (6 + 1 / 100) (sfr_scalar_2 (rfs_scalar_2 s)) (sfr_fp_2 rnd rnd_pow (rfs_fp_2 rnd rnd_pow s)).
Proof. two_stage (c_rfs_2 s) (rfs_scalar_2 s) (rfs_fp_2 rnd rnd_pow s). Qed.
Lemma rt_sr_3 s : 0 <= s ->
  approx (9 + 1 / 100) (sfr_scalar_3 (rfs_scalar_3 s)) (sfr_fp_3 rnd rnd_pow (rfs_fp_3 rnd rnd_pow s)).
Proof. intros Hs. two_stage (c_rfs_3 s Hs) (rfs_scalar_3 s) (rfs_fp_3 rnd rnd_pow s). Qed.

Lemma rt_rv_3 r : 0 < r -> Rabs (ln r) <= L ->
  approx K_rv3 (rfv_scalar_3 (vfr_scalar_3 r)) (rfv_fp_3 rnd rnd_pow (vfr_fp_3 rnd rnd_pow r)).
Proof.
  intros Hr Hl. unfG. ap_run3 (8 + kp + 1 / 100).
  match goal with |- Rabs (ln ?x) <= _ => replace x with (r * (r * r)) by (field; apply PI_neq0) end.
  rewrite !ln_mult by nra. ln_from Hl.
Qed.

Lemma rt_vr_3 v : 0 < v -> Rabs (ln (rfv_scalar_3 v)) <= L ->
  approx K_vr3 (vfr_scalar_3 (rfv_scalar_3 v)) (vfr_fp_3 rnd rnd_pow (rfv_fp_3 rnd rnd_pow v)).
Proof.
  intros Hv Hl. rewrite (ln_rfv3 v Hv) in Hl. unfG. ap_run3 (4 + 1 / 1000). ln_from Hl.
Qed.

End StdModel.

(* ---------------------------------------------------------------------------------------------------------
   Part 3: statements in the usual form  |computed - exact| <= K * u * |exact|
   --------------------------------------------------------------------------------------------------------- *)
(* The standard model of rounded arithmetic: every basic operation (and sqrt) returns the exact result with
   relative error at most u, the library pow with relative error at most kp * u.  For binary64 with round to
   nearest u = 2^-53; the model holds as long as no intermediate result leaves the normal range
   [2^-1022, 2^1024) (see binary64_is_FLX_in_normal_range below): this is the no-overflow / no-underflow
   restriction of every theorem of this file. *)
Definition std_model (u kp : R) (rnd rnd_pow : R -> R) : Prop :=
  (0 <= u <= U0) /\ (0 <= kp <= 8) /\
  (forall x, Rabs (rnd x - x) <= u * Rabs x) /\
  (forall x, Rabs (rnd_pow x - x) <= kp * u * Rabs x).

Definition rel_err (K u exact computed : R) : Prop := Rabs (computed - exact) <= K * u * Rabs exact.

Lemma approx_rel u a x y : approx u a x y -> rel_err a u x y.
Proof. apply approx_abs. Qed.

Tactic Notation "use" constr(X) "for" constr(k) := first [apply X with (kp := k) | apply X]; assumption.
Ltac use_model H :=
  destruct H as [[Hu0 Hu] [[Hk0 Hk] [Hrn Hpw]]].

Theorem fp_conversions u kp rnd rnd_pow : std_model u kp rnd rnd_pow -> forall x, 0 <= x ->
  (rel_err 1 u (vfr_scalar_1 x) (vfr_fp_1 rnd rnd_pow x) /\
   rel_err (3 + 1 / 1000) u (vfr_scalar_2 x) (vfr_fp_2 rnd rnd_pow x) /\
   rel_err (4 + kp + 1 / 1000) u (vfr_scalar_3 x) (vfr_fp_3 rnd rnd_pow x)) /\
  (rel_err 1 u (rfv_scalar_1 x) (rfv_fp_1 rnd rnd_pow x) /\
   rel_err (2 + 1 / 1000) u (rfv_scalar_2 x) (rfv_fp_2 rnd rnd_pow x)) /\
  (rel_err 0 u (sfr_scalar_1 x) (sfr_fp_1 rnd rnd_pow x) /\
   rel_err (3 + 1 / 1000) u (sfr_scalar_2 x) (sfr_fp_2 rnd rnd_pow x) /\
   rel_err (4 + 1 / 1000) u (sfr_scalar_3 x) (sfr_fp_3 rnd rnd_pow x)) /\
  (rel_err (3 + 1 / 1000) u (rfs_scalar_2 x) (rfs_fp_2 rnd rnd_pow x) /\
   rel_err (5 / 2 + 1 / 1000) u (rfs_scalar_3 x) (rfs_fp_3 rnd rnd_pow x)).
Proof.
  intros H x Hx. use_model H. repeat split; apply approx_rel.
  - use c_vfr_1 for kp.
  - use c_vfr_2 for kp.
  - use c_vfr_3 for kp.
  - use c_rfv_1 for kp.
  - use c_rfv_2 for kp.
  - use c_sfr_1 for kp.
  - use c_sfr_2 for kp.
  - use c_sfr_3 for kp.
  - use c_rfs_2 for kp.
  - use c_rfs_3 for kp.
Qed.

Theorem fp_conversion_cbrt u kp rnd rnd_pow L : std_model u kp rnd rnd_pow -> 0 <= L <= 710 ->
  forall v, 0 < v -> Rabs (ln (rfv_scalar_3 v)) <= L ->
  rel_err (K_rfv3 kp L) u (rfv_scalar_3 v) (rfv_fp_3 rnd rnd_pow v).
Proof.
  intros H [HL0 HL] v Hv Hl. use_model H. apply approx_rel. apply c_rfv_3; assumption.
Qed.

Theorem fp_round_trips u kp rnd rnd_pow : std_model u kp rnd rnd_pow -> forall x, 0 <= x ->
  (rel_err (2 + 1 / 100) u x (rfv_fp_1 rnd rnd_pow (vfr_fp_1 rnd rnd_pow x)) /\
   rel_err (7 / 2 + 1 / 100) u x (rfv_fp_2 rnd rnd_pow (vfr_fp_2 rnd rnd_pow x))) /\
  (rel_err (2 + 1 / 100) u x (vfr_fp_1 rnd rnd_pow (rfv_fp_1 rnd rnd_pow x)) /\
   rel_err (7 + 1 / 100) u x (vfr_fp_2 rnd rnd_pow (rfv_fp_2 rnd rnd_pow x))) /\
  (rel_err (6 + 1 / 100) u x (rfs_fp_2 rnd rnd_pow (sfr_fp_2 rnd rnd_pow x)) /\
   rel_err (9 / 2 + 1 / 100) u x (rfs_fp_3 rnd rnd_pow (sfr_fp_3 rnd rnd_pow x))) /\
  (rel_err (6 + 1 / 100) u x (sfr_fp_2 rnd rnd_pow (rfs_fp_2 rnd rnd_pow x)) /\
   rel_err (9 + 1 / 100) u x (sfr_fp_3 rnd rnd_pow (rfs_fp_3 rnd rnd_pow x))).
Proof.
  intros H x Hx. use_model H. repeat split.
  - rewrite <- (rv_inv_1 x) at 1. apply approx_rel; use rt_rv_1 for kp.
  - rewrite <- (rv_inv_2 x Hx) at 1. apply approx_rel; use rt_rv_2 for kp.
  - rewrite <- (vr_inv_1 x) at 1. apply approx_rel; use rt_vr_1 for kp.
  - rewrite <- (vr_inv_2 x Hx) at 1. apply approx_rel; use rt_vr_2 for kp.
  - rewrite <- (rs_inv_2 x) at 1. apply approx_rel; use rt_rs_2 for kp.
  - rewrite <- (rs_inv_3 x Hx) at 1. apply approx_rel; use rt_rs_3 for kp.
  - rewrite <- (sr_inv_2 x) at 1. apply approx_rel; use rt_sr_2 for kp.
  - rewrite <- (sr_inv_3 x Hx) at 1. apply approx_rel; use rt_sr_3 for kp.
Qed.

Theorem fp_round_trips_3 u kp rnd rnd_pow L : std_model u kp rnd rnd_pow -> 0 <= L <= 710 ->
  (forall r, 0 < r -> Rabs (ln r) <= L ->
     rel_err (K_rv3 kp L) u r (rfv_fp_3 rnd rnd_pow (vfr_fp_3 rnd rnd_pow r))) /\
  (forall v, 0 < v -> Rabs (ln (rfv_scalar_3 v)) <= L ->
     rel_err (K_vr3 kp L) u v (vfr_fp_3 rnd rnd_pow (rfv_fp_3 rnd rnd_pow v))).
Proof.
  intros H [HL0 HL]. use_model H. split.
  - intros r Hr Hl. assert (Hr' : 0 <= r) by lra.
    assert (A : approx u (K_rv3 kp L) (rfv_scalar_3 (vfr_scalar_3 r)) (rfv_fp_3 rnd rnd_pow (vfr_fp_3 rnd rnd_pow r)))
      by (apply rt_rv_3; assumption).
    rewrite (rv_inv_3 r Hr') in A. exact (approx_rel _ _ _ _ A).
  - intros v Hv Hl. assert (Hv' : 0 <= v) by lra.
    assert (A : approx u (K_vr3 kp L) (vfr_scalar_3 (rfv_scalar_3 v)) (vfr_fp_3 rnd rnd_pow (rfv_fp_3 rnd rnd_pow v)))
      by (apply rt_vr_3; assumption).
    rewrite (vr_inv_3 v Hv') in A. exact (approx_rel _ _ _ _ A).
Qed.

Ltac unfKall := unfold K_vr3, K_rv3, K_rfv3, K_vfr3, K_cbrt, K_rnd, K_pw, K_mul, K_div, K_sqrt, U0.

(* the constants of the three cube-root statements, for a pow that is accurate to one unit in the last place
   (kp = 2): first-order terms  L + 10/3,  L + 16/3,  3 L + 16  (L = bound on |ln radius|) *)
Lemma K_rfv3_le L : 0 <= L <= 710 -> 0 <= K_rfv3 2 L <= L + 10 / 3 + 1 / 1000.
Proof.
  intros [H0 H1]. split; unfKall; [interval|]. apply Rminus_le. interval with (i_taylor L).
Qed.
Lemma K_rv3_le L : 0 <= L <= 710 -> K_rv3 2 L <= L + 16 / 3 + 1 / 100.
Proof. intros [H0 H1]. unfKall. apply Rminus_le. interval with (i_taylor L). Qed.
Lemma K_vr3_of_R R : 0 <= R <= 720 ->
  K_rnd (K_mul (K_rnd (K_mul 1 1)) (K_pw 2 (K_mul R (K_mul R R)))) <= 3 * R + 6 + 1 / 2000.
Proof.
  intros [H0 H1]. unfold K_rnd, K_mul, K_pw, U0. apply Rminus_le. interval with (i_taylor R).
Qed.
Lemma K_vr3_le L : 0 <= L <= 710 -> K_vr3 2 L <= 3 * L + 16 + 1 / 100.
Proof.
  intros HL. pose proof (K_rfv3_le L HL) as [R0 R1]. destruct HL as [H0 H1]. unfold K_vr3.
  set (R := K_rfv3 2 L) in *. assert (HR : 0 <= R <= 720) by lra.
  pose proof (K_vr3_of_R R HR). lra.
Qed.

(* 30 orders of magnitude *)
Lemma ln_30_orders r : / 10 ^ 15 <= r <= 10 ^ 15 -> Rabs (ln r) <= 35.
Proof. intros H. interval. Qed.
