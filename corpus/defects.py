"""Replays of the genuine defects F1-F14 (DESIGN.md section 6) against the implementation on
PYTHONPATH.  Each function returns None when the property holds and a description otherwise.
Usage:  PYTHONPATH=/repo /venv/bin/python /verif/corpus/defects.py [F1 F2 ...]"""
import sys
import warnings

import numpy as np

warnings.simplefilter("ignore")


def F1a():
    from pde import UnitGrid, ScalarField
    from droplets.image_analysis import locate_droplets_in_mask
    g = UnitGrid((6, 5), periodic=[True, False])
    m = np.zeros((6, 5), bool)
    m[5, :] = True
    m[0:3, 0] = True
    m[0:2, 4] = True
    em = locate_droplets_in_mask(ScalarField(g, m, dtype=bool))
    # unwrapped component: column x=5 -> -1 ; cells: (-1,0..4), (0..2,0), (0..1,4)
    cells = [(-1, y) for y in range(5)] + [(x, 0) for x in range(3)] + [(x, 4) for x in range(2)]
    com = (np.mean(cells, axis=0) + 0.5) % np.array([6, 1e9])
    if len(em) != 1 or not np.allclose(em[0].position, com):
        return f"L-shaped component across x boundary located at {[list(d.position) for d in em]}, expected {list(com)}"


def F1b():
    from pde import UnitGrid, ScalarField
    from droplets.image_analysis import locate_droplets_in_mask
    g = UnitGrid((3, 3), periodic=True)
    m = np.array([[0, 1, 0], [1, 0, 1], [1, 1, 0]], bool)
    em = locate_droplets_in_mask(ScalarField(g, m, dtype=bool))
    # one torus component; a consistent unwrapped lift: (0,1),(1,0),(1,2)->(1,-1),(2,0),(2,1)
    # (0,1)-(2,1) adjacent across x: (0,1)->(3,1)
    cells = [(3, 1), (1, 0), (1, -1), (2, 0), (2, 1)]
    com = (np.mean(cells, axis=0) + 0.5) % 3
    if len(em) != 1:
        return f"expected one droplet, got {len(em)}"
    d = (em[0].position - com + 1.5) % 3 - 1.5
    if not np.allclose(d, 0):
        return f"non-convex torus component located at {list(em[0].position)}, expected {list(com)}"


def F1c():
    from pde import CartesianGrid
    from droplets import SphericalDroplet
    from droplets.image_analysis import locate_droplets
    g = CartesianGrid([(-0.5, 8.5), (-2, 15.5)], [9, 14], periodic=True)
    d = SphericalDroplet((-1.375, 0.1875), 3.125)
    em = locate_droplets(d.get_phase_field(g))
    if len(em) != 1:
        return f"expected 1 droplet, got {len(em)}"
    diff = g.difference_vector(np.array(em[0].position), np.array(d.position), coords="cartesian") if hasattr(g, "difference_vector") else None
    h = g.discretization
    if np.any(np.abs(diff) > h / 2 + 1e-12):
        return f"sphere across the corner of a doubly periodic grid: centre off by {list(diff / h)} cells (bound 1/2)"


def F2():
    from pde import UnitGrid
    from droplets.droplets import PerturbedDroplet3D
    d = PerturbedDroplet3D((1.5, 1.5, 1.5), 1.2, 1.0, [0.1, 0, 0])
    f = d.get_phase_field(UnitGrid((4, 4, 4)))
    if not np.all(np.isfinite(f.data)):
        return "PerturbedDroplet3D centred on a cell centre renders NaN"


def F3():
    from pde import CylindricalSymGrid
    from droplets.droplets import PerturbedDroplet3DAxisSym
    d = PerturbedDroplet3DAxisSym((0, 0, 2.0), 1.5, 1.0, [0.1, 0.05])
    try:
        f = d.get_phase_field(CylindricalSymGrid(4, (0, 5), (8, 10)))
    except TypeError as e:
        return f"PerturbedDroplet3DAxisSym cannot be rendered: TypeError {e}"
    if not np.all(np.isfinite(f.data)):
        return "axisymmetric droplet renders non-finite values"


def F4():
    from droplets import SphericalDroplet, Emulsion
    from droplets.emulsions import EmulsionTimeCourse
    from droplets.droplet_tracks import DropletTrackList
    e1 = Emulsion([SphericalDroplet([1.0, 1.0], 1)])
    etc = EmulsionTimeCourse([e1, Emulsion(), e1], times=[0, 1, 2])
    try:
        tl = DropletTrackList.from_emulsion_time_course(etc, method="distance")
    except ValueError as e:
        return f"distance tracking aborts on an empty frame: ValueError {e}"
    if sum(len(t) for t in tl) != 2:
        return "droplets lost"


def F5():
    from pde import CylindricalSymGrid, ScalarField
    from droplets.image_analysis import locate_droplets_in_mask
    g = CylindricalSymGrid(4, (0, 6), (4, 6))
    m = np.zeros((4, 6), bool)
    m[2, 3] = True
    try:
        em = locate_droplets_in_mask(ScalarField(g, m, dtype=bool))
    except Exception as e:
        return f"cylindrical mask with only an off-axis object aborts: {type(e).__name__} {e}"
    if len(em) != 0:
        return "expected empty emulsion"


def F8a():
    from droplets.droplets import PerturbedDroplet3D
    a = np.zeros(8)
    a[3], a[5] = 0.01, 0.02  # two l=2 modes
    d = PerturbedDroplet3D((0, 0, 0), 1.0, 1.0, a)
    d1 = PerturbedDroplet3D((0, 0, 0), 1.0, 1.0, np.where(np.arange(8) == 3, a, 0))
    d2 = PerturbedDroplet3D((0, 0, 0), 1.0, 1.0, np.where(np.arange(8) == 5, a, 0))
    th, ph = 0.7, 1.1
    lhs = d.interface_curvature(th, ph) - 1
    rhs = (d1.interface_curvature(th, ph) - 1) + (d2.interface_curvature(th, ph) - 1)
    if not np.isclose(lhs, rhs, rtol=1e-9, atol=1e-15):
        return f"3-d curvature correction is not the sum over modes: {lhs} vs {rhs}"


def F8b():
    from droplets.droplets import PerturbedDroplet3D
    a = np.zeros(8)
    a[5] = 0.02
    th, ph = 0.7, 1.1
    c1 = PerturbedDroplet3D((0, 0, 0), 1.0, 1.0, a).interface_curvature(th, ph)
    c2 = PerturbedDroplet3D((0, 0, 0), 2.0, 1.0, a).interface_curvature(th, ph)
    if not np.isclose(c2, c1 / 2, rtol=1e-9):
        return f"3-d curvature is not homogeneous of degree -1 in the radius: H(2R)={c2}, H(R)/2={c1 / 2}"


def F8c():
    from droplets.droplets import PerturbedDroplet3D
    eps = 1e-3
    d = PerturbedDroplet3D((0, 0, 0), 2.0, 1.0, [eps, 0, 0])
    exact, approx = d.volume, d.volume_approx
    # first-order agreement: error must be O(eps^2)
    if abs(exact - approx) > 50 * eps**2 * exact:
        return f"volume_approx deviates at first order: exact {exact}, approx {approx} (eps={eps})"


def F9():
    import os
    import tempfile
    from droplets.droplets import PerturbedDroplet3D, PerturbedDroplet3DAxisSym
    from droplets.droplet_tracks import DropletTrack
    t = DropletTrack()
    t.append(PerturbedDroplet3D((0, 0, 1.0), 1.0, 1.0, [0.1, 0.2, 0.3]), 0)
    t.append(PerturbedDroplet3DAxisSym((0, 0, 1.0), 1.0, 1.0, [0.1, 0.2, 0.3]), 1)
    with tempfile.TemporaryDirectory(dir="/var/tmp") as tmp:
        p = os.path.join(tmp, "t.h5")
        try:
            t.to_file(p)
        except Exception:
            return None  # raising is allowed
        try:
            t2 = DropletTrack.from_file(p)
        except Exception as e:
            return f"mixed-class track written without error but cannot be read: {type(e).__name__}"
        if [type(d).__name__ for d in t2.droplets] != [type(d).__name__ for d in t.droplets]:
            return "mixed-class track written without error reads back with different classes"


def F10():
    from pde import UnitGrid, ScalarField
    from droplets import DiffuseDroplet
    from droplets.image_analysis import refine_droplet
    g = UnitGrid((16, 16))
    d = DiffuseDroplet((8.0, 8.0), 4.0, 1.0)
    img = ScalarField(g, d.get_phase_field(g).data + 5)
    try:
        refine_droplet(img, DiffuseDroplet((8.2, 7.9), 3.8, 1.0), vmin=None, vmax=None, adjust_values=True)
    except ValueError as e:
        return f"refine_droplet(adjust_values=True) aborts on intensities in [5,6]: {e}"


def F11():
    from droplets import DiffuseDroplet, Emulsion
    em = Emulsion([DiffuseDroplet((0.0, 0.0), 1.0, 1.0), DiffuseDroplet((3.0, 0.0), 1.0, 1.0)])
    em.get_linked_data()
    try:
        em[0].merge(em[1])
    except AttributeError as e:
        return f"merge after get_linked_data raises AttributeError: {e}"


def F13():
    from pde import CylindricalSymGrid
    from droplets import SphericalDroplet
    from droplets.image_analysis import locate_droplets
    g = CylindricalSymGrid(6, (0, 12), (6, 12))
    d = SphericalDroplet((0, 0, 3.875), 1.5)
    em = locate_droplets(d.get_phase_field(g))
    if len(em) != 1:
        return f"expected 1 droplet, got {len(em)}"
    dz = abs(em[0].position[2] - 3.875) / g.discretization[1]
    if dz > 0.5 + 1e-9:
        return f"cylindrical locate: z off by {dz:.3f} cells (bound 1/2)"


def F14():
    from pde import CylindricalSymGrid, ScalarField
    from droplets.image_analysis import locate_droplets_in_mask
    g = CylindricalSymGrid(3, (0, 6), (3, 6), periodic_z=True)
    for cells in ([(0, 0)], [(0, 0), (0, 5)]):
        m = np.zeros((3, 6), bool)
        for c in cells:
            m[c] = True  # one on-axis component whose (reported) centroid lies on the periodic z bound
        em = locate_droplets_in_mask(ScalarField(g, m, dtype=bool))
        if len(em) != 1:
            return f"periodic cylinder, on-axis component {cells}: returned {len(em)} times"


def F7():
    from pde import CartesianGrid, ScalarField
    from droplets.image_analysis import get_length_scale
    import math
    N = 64
    out = []
    for h in (10.0,):
        g = CartesianGrid([(0, N * h)], [N], periodic=True)
        x = g.cell_coords[..., 0]
        f = ScalarField(g, np.sin(2 * np.pi * 4 * x / (N * h)))
        L = get_length_scale(f, method="structure_factor_maximum")
        if not math.isfinite(L):
            return f"structure_factor_maximum returns {L} for a resolved plane wave at spacing {h}"


def F15():
    from droplets.droplets import PerturbedDroplet3DAxisSym
    d = PerturbedDroplet3DAxisSym([0, 0, 1.0], 2.0, 0.1, [0.0, 0.3])
    th, ph = np.array([0.3]), np.array([0.5])
    want = float(d.interface_distance(th)[0])
    got = float(np.linalg.norm(d.interface_position(th, ph) - d.position))
    if abs(want - got) > 1e-12:
        return f"axisymmetric interface_position ignores the amplitudes: |pos - centre| = {got}, interface_distance = {want}"
    tri = d.get_triangulation(1.0)
    v = tri["vertices"] - d.position
    r = np.linalg.norm(v, axis=1)
    theta = np.arccos(v[:, 2] / r)
    if not np.allclose(r, d.interface_distance(theta), rtol=1e-12):
        return "triangulation vertices of an axisymmetric droplet do not lie on its interface"


def F16():
    from pde import CylindricalSymGrid
    from droplets import DiffuseDroplet
    from droplets.image_analysis import get_length_scale
    g = CylindricalSymGrid(4, (0, 16), (8, 32))
    f = DiffuseDroplet([0, 0, 8], 2, 0.5).get_phase_field(g)
    try:
        L = get_length_scale(f, method="droplet_detection")
    except Exception as e:
        return f"get_length_scale(method='droplet_detection') on a cylindrical grid raises {type(e).__name__}: {e}"


def F17():
    from pde import UnitGrid
    from droplets import DiffuseDroplet, Emulsion
    from droplets.image_analysis import locate_droplets
    grid = UnitGrid([16, 14], periodic=True)
    f = Emulsion([DiffuseDroplet([3, 2.25], 1.5, .75), DiffuseDroplet([8.25, 7], 1.75, .75),
                  DiffuseDroplet([2.75, 12], 1.25, .75)]).get_phasefield(grid)
    ser = locate_droplets(f, modes=2, refine=True, num_processes=1)
    try:
        par = locate_droplets(f, modes=2, refine=True, num_processes=2)
    except TypeError as e:
        return f"parallel refinement raises where the serial call succeeds: TypeError {e}"
    if [d.data.tobytes() for d in ser] != [d.data.tobytes() for d in par]:
        return "parallel and serial refinement differ"


def F21():
    import pde
    from droplets import DiffuseDroplet
    from droplets.image_analysis import refine_droplet
    g = pde.CylindricalSymGrid(8, (0, 16), (8, 16))
    img = DiffuseDroplet([0, 0, 8], 4, 1.).get_phase_field(g)
    d = refine_droplet(img, DiffuseDroplet([0.3, 0.4, 8.2], 4.2, 1.))
    if not (d.position[0] == 0.3 and d.position[1] == 0.4):
        return f"refine_droplet changed coordinates fixed by the grid symmetry: (0.3, 0.4, .) -> {list(d.position)}"
    g = pde.SphericalSymGrid(8, 16)
    img = DiffuseDroplet([0, 0, 0], 4, 1.).get_phase_field(g)
    d = refine_droplet(img, DiffuseDroplet([0, 0, -0.2], 4.2, 1.))
    if list(d.position) != [0, 0, -0.2]:
        return f"refine_droplet changed coordinates fixed by the grid symmetry: (0, 0, -0.2) -> {list(d.position)}"


def F26():
    import os
    import tempfile
    from droplets.droplets import PerturbedDroplet2D
    from droplets.droplet_tracks import DropletTrack
    t = DropletTrack([PerturbedDroplet2D([1, 2], 3, 0.5, [0.1, 0.3]), PerturbedDroplet2D([1, 2], 3, 0.5, [0.2])], [0, 1])
    with tempfile.TemporaryDirectory(dir="/var/tmp") as tmp:
        p = os.path.join(tmp, "t.h5")
        try:
            t.to_file(p)
        except Exception:
            return None  # raising is allowed
        t2 = DropletTrack.from_file(p)
        if not (len(t2) == 2 and list(t2.droplets[1].amplitudes) == [0.2]):
            return f"track with differing amplitude counts written without error, reads back amplitudes {list(t2.droplets[1].amplitudes)}"


def F27():
    from pde import CylindricalSymGrid, ScalarField
    from droplets.image_analysis import locate_droplets_in_mask
    g = CylindricalSymGrid(3, (0, 4), (3, 4))
    m = np.zeros((3, 4), bool)
    m[0, 0] = m[0, 1] = m[1, 1] = True
    em = locate_droplets_in_mask(ScalarField(g, m, dtype=bool))
    # cell volumes are proportional to 1, 3, 5 for the three radial shells
    com = (0.5 * 1 + 1.5 * 1 + 1.5 * 3) / 5
    if len(em) != 1 or abs(em[0].position[2] - com) > 1e-12:
        return f"cylindrical locate: position z={[float(d.position[2]) for d in em]} is not the centre of mass {com} of the component (cells not weighted by their volume)"


def F28():
    from pde import CylindricalSymGrid, ScalarField
    from droplets.image_analysis import locate_droplets_in_mask
    g = CylindricalSymGrid(2, (0, 3), (2, 3))
    m = np.array([[1, 0, 1], [1, 0, 0]], bool)
    em = locate_droplets_in_mask(ScalarField(g, m, dtype=bool))
    for i in range(len(em)):
        for j in range(i + 1, len(em)):
            if em[i].overlaps(em[j]):
                return (f"non-periodic cylindrical grid: returned droplets at z={em[i].position[2]} (r={em[i].radius:.4g}) and "
                        f"z={em[j].position[2]} (r={em[j].radius:.4g}) overlap as equal-volume spheres")


def F23():
    from pde import CartesianGrid, ScalarField, UnitGrid
    from droplets import DiffuseDroplet
    from droplets.image_analysis import locate_droplets, refine_droplet
    g = CartesianGrid([(0, 1.5), (0, 0.5), (-1.5, -0.5)], [3, 2, 4], periodic=[False, True, True])
    f = ScalarField(g, (np.random.default_rng(859567243).random((3, 2, 4)) < 0.3).astype(float))
    try:
        em = locate_droplets(f, threshold="otsu", modes=3, refine=True, refine_args={"vmin": None, "vmax": None})
    except ValueError as e:
        return f"locate_droplets(refine=True, automatic levels) aborts on an anisotropic grid: ValueError {e}"
    if not all(np.all(np.isfinite(d._data_array)) for d in em):
        return "non-finite droplet"
    g2 = UnitGrid([16, 16])
    img = DiffuseDroplet([8, 8], 4, 1.).get_phase_field(g2)
    try:
        refine_droplet(img, DiffuseDroplet([8, 8], 0.3, 1.), vmin=None)
    except ValueError as e:
        return f"refine_droplet with an empty fit region and automatic level aborts: ValueError {e}"


def F30():
    from droplets import SphericalDroplet, Emulsion
    em = Emulsion([SphericalDroplet([0.5], 0.0), SphericalDroplet([0.5], 0.0), SphericalDroplet([0.5], 0.5)])
    nd = em.get_neighbor_distances(subtract_radius=True)
    if abs(nd[2] - (-0.5)) > 1e-12:
        return (f"three droplets at the same position: surface distance of the third to its nearest neighbour reported as {nd[2]}, "
                "expected 0 - (0.5 + 0) = -0.5 (the radii of two OTHER droplets were subtracted)")

def F31():
    """the same two analyses, run one after the other with one options dict, give a different second result depending
    on whether the FIRST one ran serially or with workers (serial refine_droplet wrote ftol/xtol/gtol into the caller's dict)"""
    import numpy as np
    from pde import UnitGrid
    from droplets import DiffuseDroplet, Emulsion, SphericalDroplet
    from droplets.image_analysis import refine_droplets
    grid = UnitGrid([24, 24])
    em = Emulsion([DiffuseDroplet([7.3, 8.1], 4.2, 1.3), DiffuseDroplet([17.2, 16.4], 3.1, 1.3)])
    field = em.get_phasefield(grid)
    cands = [SphericalDroplet([7, 8], 4), SphericalDroplet([17, 16], 3)]

    def history(first_procs):
        p = {"max_nfev": 50}
        refine_droplets(field, [c.copy() for c in cands], num_processes=first_procs, tolerance=1e-2, least_squares_params=p)
        second = refine_droplets(field, [c.copy() for c in cands], num_processes=1, tolerance=1e-12, least_squares_params=p)
        return [d.data.tobytes() for d in second], dict(p)
    (a, pa), (b, pb) = history(1), history(2)
    if a != b or pa != pb:
        return (f"history [refine(tol=1e-2, p); refine(tol=1e-12, p)] with one dict p: the second result differs bit-wise depending on "
                f"whether the first analysis ran with 1 or 2 processes (p afterwards: serial {pa}, parallel {pb})")

def F32():
    """refine_droplets overwrites the caller's DiffuseDroplet candidates when it runs serially (refine_droplet fitted them in
    place and returned the same objects) but not when it runs with worker processes (pickled copies): a later analysis
    that uses the same emulsion as candidates returns different droplets depending on how the EARLIER one was scheduled"""
    import warnings
    from pde import UnitGrid
    from droplets import DiffuseDroplet, Emulsion
    from droplets.image_analysis import refine_droplets
    g = UnitGrid([16, 16])
    img = DiffuseDroplet([8, 8], 4, 1.0).get_phase_field(g)
    img2 = DiffuseDroplet([8.5, 7.5], 4.5, 1.5).get_phase_field(g)

    def history(n):
        em = Emulsion([DiffuseDroplet([8.3, 7.8], 4.3, 1.0), DiffuseDroplet([7.6, 8.2], 3.8, 1.2)])
        before = [d.data.tobytes() for d in em]
        with warnings.catch_warnings():
            warnings.simplefilter("ignore")
            refine_droplets(img, em, num_processes=n, tolerance=1e-3)
            after = [d.data.tobytes() for d in em]
            second = [d.data.tobytes() for d in refine_droplets(img2, em, num_processes=1, least_squares_params={"max_nfev": 3})]
        return before == after, second
    (unch1, sec1), (unch2, sec2) = history(1), history(2)
    if unch1 != unch2 or sec1 != sec2:
        return (f"history [refine_droplets(img, em, num_processes=n); refine_droplets(img2, em)]: candidates of the caller unchanged by "
                f"the first analysis: n=1 {unch1}, n=2 {unch2}; second analysis bit-identical for n=1 and n=2: {sec1 == sec2}")


def F33():
    """integer images: automatic levels are computed in the image's integer type; `vmin - vrng` / `3 * vrng` wrap around"""
    import warnings
    import numpy as np
    from pde import UnitGrid, ScalarField
    from droplets import DiffuseDroplet
    from droplets.image_analysis import locate_droplets
    g = UnitGrid([16, 16])
    data = np.rint(200 * DiffuseDroplet([8, 8], 4, 1.0).get_phase_field(g).data).astype(np.uint8)
    try:
        with warnings.catch_warnings():
            warnings.simplefilter("ignore")
            em = locate_droplets(ScalarField(g, data, dtype=np.uint8), threshold="extrema", refine=True,
                                 refine_args={"adjust_values": True, "vmin": None, "vmax": None})
    except Exception as e:  # noqa
        return f"locate_droplets(uint8 image, refine with fitted levels) raised {type(e).__name__}: {e}"
    if len(em) != 1 or not (np.all(np.isfinite(em[0].position)) and np.isfinite(em[0].radius)):
        return f"uint8 image: {len(em)} droplets / non-finite parameters"

def F34():
    """small-contrast images: residuals in image units + absolute optimizer tolerances -> the fit stops early"""
    import warnings
    import numpy as np
    from pde import UnitGrid, ScalarField
    from droplets import DiffuseDroplet
    from droplets.image_analysis import locate_droplets
    g = UnitGrid([32, 32])
    t = DiffuseDroplet([15.3, 16.8], 7.4, 1.5)
    worst = []
    for a, b in ((2.0 ** -14, 0.0), (2.0 ** -10, 0.0), (1e-3, 5.0), (2.0 ** 40, 0.0)):
        for name, opt in (("supplied", {"vmin": b, "vmax": a + b}),
                          ("supplied+fitted", {"vmin": b, "vmax": a + b, "adjust_values": True}),
                          ("automatic+fitted", {"vmin": None, "vmax": None, "adjust_values": True})):
            with warnings.catch_warnings():
                warnings.simplefilter("ignore")
                d = locate_droplets(ScalarField(g, b + a * t.get_phase_field(g).data), threshold="extrema", refine=True,
                                    refine_args=opt)[0]
            e = max(abs(d.radius - 7.4) / 7.4, abs(d.interface_width - 1.5) / 1.5, float(np.abs(d.position - t.position).max()) / 7.4)
            if not e < 1e-4:
                worst.append(f"image = {b!r} + {a!r} * profile, levels {name}: relative error {e:.2e}")
    if worst:
        return "; ".join(worst[:4]) + (f" (+{len(worst) - 4} more)" if len(worst) > 4 else "")

def F35():
    """e.extend(e) iterates over the emulsion while appending to it and never terminates (a list doubles)"""
    from droplets import SphericalDroplet, Emulsion

    class Guarded(Emulsion):
        calls = 0

        def append(self, droplet, **kw):
            Guarded.calls += 1
            if Guarded.calls > 50:
                raise OverflowError
            super().append(droplet, **kw)
    e = Guarded([SphericalDroplet([0, 0], 1), SphericalDroplet([3, 0], 1)])
    Guarded.calls = 0
    try:
        e.extend(e)
    except OverflowError:
        return f"e.extend(e) does not terminate (len(e) = {len(e)} after 50 appends)"
    if len(e) != 4:
        return f"e.extend(e) left {len(e)} droplets, a list holds 4"


def F36():
    """'extrema' / 'auto' threshold on narrow integer images: min + max is added in the image dtype and wraps"""
    import warnings
    import numpy as np
    from pde import CartesianGrid, ScalarField
    from droplets.image_analysis import locate_droplets
    g = CartesianGrid([(0, 6)], [6])
    d = np.array([10, 250, 250, 10, 10, 10], np.uint8)
    with warnings.catch_warnings():
        warnings.simplefilter("ignore")
        a = [x.radius for x in locate_droplets(ScalarField(g, d, dtype=np.uint8), threshold="extrema")]
        b = [x.radius for x in locate_droplets(ScalarField(g, d.astype(float)), threshold="extrema")]
    if a != b:
        return f"uint8 image with values 10 / 250, threshold 'extrema': radii {a}; the same values as float64: {b}"


def F37():
    """nearest-neighbour distances of an emulsion that mixes droplet classes (accepted by the constructor and by every
    other distance query) raise TypeError"""
    import numpy as np
    from droplets import SphericalDroplet, DiffuseDroplet, Emulsion
    em = Emulsion([SphericalDroplet([0.0, 0.0], 1), DiffuseDroplet([0.5, 0.0], 1, 0.1), SphericalDroplet([5.0, 0.0], 1)])
    em.get_pairwise_distances()
    try:
        nd = em.get_neighbor_distances()
        ns = em.get_neighbor_distances(subtract_radius=True)
    except TypeError as e:
        return f"get_neighbor_distances raises on an emulsion that mixes droplet classes: TypeError {e}"
    if not (np.allclose(nd, [0.5, 0.5, 4.5]) and np.allclose(ns, [-1.5, -1.5, 2.5])):
        return f"nearest-neighbour distances {nd} / {ns} are not the row minima"


ALL = {k: v for k, v in globals().items() if k[0] == "F" and callable(v)}

if __name__ == "__main__":
    names = sys.argv[1:] or sorted(ALL, key=lambda s: (int("".join(c for c in s if c.isdigit())), s))
    nfail = 0
    for n in names:
        try:
            r = ALL[n]()
        except Exception as e:  # noqa
            r = f"replay crashed: {type(e).__name__}: {e}"
        print(f"{n}: {'ok' if r is None else 'FAILS: ' + r}")
        nfail += r is not None
    sys.exit(1 if nfail else 0)
