"""Snapshot of the functions of droplets/image_analysis.py from which coq_golden/Gen_spectrum.v was generated
(written by harness/gen_spectrum.py --update-golden-source; never imported, only parsed)."""



def get_structure_factor(
    scalar_field: ScalarField,
    smoothing: None | float | Literal["auto", "none"] = "auto",
    wave_numbers: Sequence[float] | Literal["auto"] = "auto",
    add_zero: bool = False,
) -> tuple[np.ndarray, np.ndarray]:
    r"""Calculates the structure factor associated with a field.

    Here, the structure factor is basically the power spectral density of the field
    `scalar_field` normalized so that re-gridding or rescaling the field does not change
    the result.

    Args:
        scalar_field (:class:`~pde.fields.ScalarField`):
            The scalar_field being analyzed
        smoothing (float, optional):
            Length scale that determines the smoothing of the radially averaged
            structure factor. If omitted, the full data about the discretized
            structure factor is returned. The special value `auto` calculates
            a value automatically.
        wave_numbers (list of floats, optional):
            The magnitude of the wave vectors at which the structure factor is
            evaluated. This only applies when smoothing is used. If `auto`, the
            wave numbers are determined automatically.
        add_zero (bool):
            Determines whether the value at k=0 (defined to be 1) should also be
            returned.

    Returns:
        (numpy.ndarray, numpy.ndarray): Two arrays giving the wave numbers and the
        associated structure factor. Wave numbers :math:`k` are related to distances by
        :math:`2\pi/k`.
    """
    if not isinstance(scalar_field, ScalarField):
        raise TypeError(
            "Length scales can only be calculated for scalar "
            f"fields, not {scalar_field.__class__.__name__}"
        )

    grid = scalar_field.grid
    if not isinstance(grid, CartesianGrid):
        raise NotImplementedError(
            "Structure factor can currently only be calculated for Cartesian grids"
        )
    if not all(grid.periodic):
        _logger.warning(
            "Structure factor calculation assumes periodic boundary "
            "conditions, but not all grid dimensions are periodic"
        )

    # do the n-dimensional Fourier transform and calculate the structure factor
    f1 = np_fftn(scalar_field.data, norm="ortho").flat[1:]
    flat_data = scalar_field.data.flat
    sf = np.abs(f1) ** 2 / np.dot(flat_data, flat_data)

    # an alternative calculation of the structure factor is
    #    f2 = np_ifftn(scalar_field.data, norm='ortho').flat[1:]
    #    sf = (f1 * f2).real
    #    sf /= (scalar_field.data**2).sum()
    # but since this involves two FFT, it is probably slower

    # determine the (squared) components of the wave vectors.
    # Note that `fftfreq` defines the wave number in cycles per unit of the sample
    # spacing, so we need to scale lengths by one over 2π.
    k2s = [
        np.fft.fftfreq(grid.shape[i], d=grid.discretization[i] / (2 * np.pi)) ** 2
        for i in range(grid.dim)
    ]
    # calculate the magnitude
    k_mag = np.sqrt(reduce(np.add.outer, k2s)).flat[1:]

    no_wavenumbers = wave_numbers is None or (
        isinstance(wave_numbers, str) and wave_numbers == "auto"
    )

    if smoothing is not None and smoothing != "none" and smoothing != 0:
        # construct the smoothed function of the structure factor
        if smoothing == "auto":
            smoothing = k_mag.max() / 128
        smoothing = float(smoothing)  # type: ignore
        sf_smooth = SmoothData1D(k_mag, sf, sigma=smoothing)

        if no_wavenumbers:
            # determine the wave numbers at which to evaluate it
            k_min = 2 / grid.cuboid.size.max()
            k_max = k_mag.max()
            k_mag = np.linspace(k_min, k_max, 128)

        else:
            k_mag = np.array(wave_numbers)

        # obtain the smoothed values at these points
        sf = sf_smooth(k_mag)

    elif not no_wavenumbers:
        _logger.warning(
            "Argument `wave_numbers` is only used when `smoothing` is enabled."
        )

    if add_zero:
        sf = np.r_[1, sf]
        k_mag = np.r_[0, k_mag]

    return k_mag, sf


def get_length_scale(
    scalar_field: ScalarField,
    method: Literal[
        "structure_factor_mean", "structure_factor_maximum", "droplet_detection"
    ] = "structure_factor_maximum",
    **kwargs,
) -> float | tuple[float, Any]:
    """Calculates a length scale associated with a phase field.

    Args:
        scalar_field (:class:`~pde.fields.ScalarField`):
            The scalar field to analyze
        method (str):
            A string determining which method is used to calculate the length scale.
            Valid options are `structure_factor_maximum` (numerically determine the
            maximum in the structure factor), `structure_factor_mean` (calculate the
            mean of the structure factor), and `droplet_detection` (determine the number
            of droplets and estimate average separation).

    Additional supported keyword arguments depend on the chosen method. For instance,
    the methods involving the structure factor allow for a boolean flag `full_output`,
    which also returns the actual structure factor. The method
    `structure_factor_maximum` also allows for some smoothing of the radially averaged
    structure factor. If the parameter `smoothing` is set to `None` the amount of
    smoothing is determined automatically from the typical discretization of the
    underlying grid. For the method `droplet_detection`, additional arguments are
    forwarded to :func:`locate_droplets`.

    Returns:
        float: The determine length scale

    See Also:
        :class:`~droplets.trackers.LengthScaleTracker`: Tracker measuring length scales
    """
    if method == "structure_factor_mean" or method == "structure_factor_average":
        # calculate the structure factor
        k_mag, sf = get_structure_factor(scalar_field)
        length_scale = 2 * np.pi * np.sum(sf) / np.sum(k_mag * sf)

        if kwargs.pop("full_output", False):
            return length_scale, sf

    elif method == "structure_factor_maximum" or method == "structure_factor_peak":
        # calculate the structure factor
        k_mag, sf = get_structure_factor(scalar_field, smoothing=None, add_zero=True)

        # smooth the structure factor
        smoothing = kwargs.pop("smoothing", None)
        if smoothing is None:
            smoothing = 0.01 * scalar_field.grid.typical_discretization
        sf_smooth = SmoothData1D(k_mag, sf, sigma=smoothing)

        # find the maximum
        with warnings.catch_warnings():
            warnings.simplefilter("ignore")

            # determine maximum (excluding k=0)
            max_est = k_mag[1 + np.argmax(sf[1:])]
            for window_size in [5, 1, 0.2]:
                bracket = [max_est / window_size, max_est, max_est * window_size]
                _logger.debug(
                    "Seek maximal structure factor in interval %s with window_size=%g",
                    bracket,
                    window_size,
                )
                try:
                    result = optimize.minimize_scalar(
                        lambda x: -sf_smooth(x), bracket=bracket
                    )
                except Exception:
                    _logger.warning("Could not determine maximal structure factor")
                    length_scale = math.nan
                else:
                    if not result.success:
                        _logger.warning(
                            "Maximization of structure factor resulted in the "
                            "following message: %s",
                            result.message,
                        )
                    length_scale = 2 * np.pi / result.x
                    break  # found some answer, which we will use

        if kwargs.pop("full_output", False):
            return length_scale, sf_smooth

    elif method == "droplet_detection":
        # calculate the length scale from detected droplets
        droplets = locate_droplets(scalar_field, **kwargs)
        kwargs = {}  # clear kwargs, so no warning is raised

        # get the axes along which droplets can be placed
        grid = scalar_field.grid
        axes = set(range(grid.dim)) - set(grid.coordinate_constraints)
        volume = 1.0
        for ax in axes:
            volume *= grid.axes_bounds[ax][1] - grid.axes_bounds[ax][0]

        volume_per_droplet = volume / len(droplets)
        length_scale = volume_per_droplet ** (1 / len(axes))

    else:
        raise ValueError(
            f"Method {method} is not defined. Valid values are `structure_factor_mean` "
            "and `structure_factor_maximum`"
        )

    if kwargs:
        # raise warning if keyword arguments remain
        _logger.warning("Unused keyword arguments: %s", ", ".join(kwargs))

    # return only the length scale with out any additional information
    return length_scale
