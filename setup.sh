#!/bin/bash
# Build the whole Coq development from files on disk (offline): regenerate Gen/*.v from /repo,
# coq_makefile, make -j16 -k (full .vo build).  Nothing under /tmp is needed afterwards.
# Fails only if a property claimed in MANIFEST.json does not build (work-in-progress files of
# unclaimed properties may be present in the tree).
cd "$(dirname "$0")" || exit 2
export VERIF_REPO=${VERIF_REPO:-/repo}
export PYTHONPATH=$VERIF_REPO:/verif/harness PYTHONHASHSEED=0 PIP_NO_INDEX=1
export NUMBA_CACHE_DIR=/verif/build/numba_cache MPLBACKEND=Agg
mkdir -p build evidence replays
/venv/bin/python - <<'PY'
import json, sys
sys.path.insert(0, "/verif/harness")
import vlib
claimed = [c["property_id"] for c in json.load(open("/verif/MANIFEST.json"))["checks"]]
with vlib.BuildLock():
    errs = vlib.sync_and_generate()
    for k, v in errs.items():
        print("translator failed closed:", k, v)
    ok, log = vlib.make([], timeout=3000)
    print(log[-2500:])
    missing = [p for p in claimed if not (vlib.COQ_BUILD / "Properties" / f"{p}.vo").exists()]
    bad = vlib.grep_forbidden()
    if bad:
        print("FORBIDDEN constructs:", bad)
    if missing:
        print("claimed properties that do not build:", missing)
    sys.exit(0 if not missing and not bad else 1)
PY
