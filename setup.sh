#!/bin/bash
# Build the whole Coq development from files on disk (offline): regenerate Gen/*.v from /repo,
# coq_makefile, make -j16 (full .vo build).  Nothing under /tmp is needed afterwards.
cd "$(dirname "$0")" || exit 2
export PYTHONPATH=/repo:/verif/harness PYTHONHASHSEED=0 PIP_NO_INDEX=1
export NUMBA_CACHE_DIR=/verif/build/numba_cache MPLBACKEND=Agg
mkdir -p build evidence replays
/venv/bin/python - <<'PY'
import sys
sys.path.insert(0, "/verif/harness")
import vlib
with vlib.BuildLock():
    errs = vlib.sync_and_generate()
    for k, v in errs.items():
        print("translator failed closed:", k, v)
    ok, log = vlib.make([], timeout=3000)
    print(log[-3000:])
    bad = vlib.grep_forbidden()
    if bad:
        print("FORBIDDEN constructs:", bad)
    sys.exit(0 if ok and not bad else 1)
PY
